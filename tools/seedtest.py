#!/usr/bin/env python3
"""tools/seedtest.py <seed-dir> [--suite] [--tier quick] [--props C01,C02]

<seed-dir> holds patch.diff, demo.py, meta.json (a seeded breaking change). Copies /repo's working tree to a scratch
directory outside /repo and /verif, checks that the demo passes there, applies the patch, checks that the demo now fails,
optionally runs the pinned suite (--suite) and runs ./check <property> <tier> with VF_REPO=<scratch>. Removes the scratch copy."""
import json, os, shutil, subprocess, sys, tempfile
HERE = os.path.dirname(os.path.dirname(os.path.abspath(__file__)))

def sh(cmd, **kw):
    return subprocess.run(cmd, shell=True, capture_output=True, text=True, **kw)

def main():
    args = sys.argv[1:]
    d = os.path.abspath(args[0])
    suite = "--suite" in args
    tier = args[args.index("--tier") + 1] if "--tier" in args else "quick"
    meta = json.load(open(os.path.join(d, "meta.json")))
    props = args[args.index("--props") + 1].split(",") if "--props" in args else [meta["property"]]
    scratch = tempfile.mkdtemp(prefix="vfseed-")
    res = {"seed": os.path.basename(d), "property": meta["property"]}
    try:
        sh(f"cd /repo && git ls-files -z | xargs -0 cp --parents -t {scratch}")
        demo = os.path.join(d, "demo.py")
        env = dict(os.environ, PYTHONPATH=scratch, PYTHONDONTWRITEBYTECODE="1")
        r0 = subprocess.run(["/venv/bin/python", "-W", "ignore", demo], capture_output=True, text=True, env=env, cwd=scratch)
        res["demo_without"] = r0.returncode
        ap = sh(f"cd {scratch} && git init -q . 2>/dev/null; git apply --whitespace=nowarn {os.path.join(d, 'patch.diff')}")
        if ap.returncode != 0:
            ap = sh(f"cd {scratch} && patch -p1 < {os.path.join(d, 'patch.diff')}")
        res["applied"] = ap.returncode == 0
        if not res["applied"]:
            res["apply_err"] = (ap.stderr + ap.stdout)[-300:]
        r1 = subprocess.run(["/venv/bin/python", "-W", "ignore", demo], capture_output=True, text=True, env=env, cwd=scratch)
        res["demo_with"] = r1.returncode
        if suite:
            h = tempfile.mkdtemp(prefix="vfhyp-")
            r = sh(f"cd {scratch} && HYPOTHESIS_STORAGE_DIRECTORY={h} /venv/bin/python -m pytest -q -p no:cacheprovider --timeout=900 2>&1 | tail -1")
            shutil.rmtree(h, ignore_errors=True)
            res["suite"] = r.stdout.strip()
        for p in props:
            env2 = dict(os.environ, VF_REPO=scratch, VF_EVIDENCE_DIR=os.path.join(scratch, "_ev"))
            r = subprocess.run([os.path.join(HERE, "check"), p, tier], capture_output=True, text=True, env=env2)
            vio = [l for l in r.stdout.splitlines() if l.startswith("VIOLATION")]
            res[p] = {"exit": r.returncode, "violations": len(vio), "first": (r.stdout.split("VIOLATION", 1)[1][:400] if vio else r.stdout[-200:] + r.stderr[-300:])}
    finally:
        shutil.rmtree(scratch, ignore_errors=True)
    print(json.dumps(res, indent=1))

if __name__ == "__main__":
    main()
