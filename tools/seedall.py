#!/usr/bin/env python3
"""tools/seedall.py [--matrix] [--suite] [--only C02,C09] : run every seeded change (seeded/<ID>/) against its own property's quick check
(--matrix: against all 20) and write the outcome into seeded/<ID>/meta.json ("verified") and seeded/RESULTS.md."""
import json, os, subprocess, sys, concurrent.futures as cf
HERE = os.path.dirname(os.path.dirname(os.path.abspath(__file__)))
ALL = ["C%02d" % i for i in range(1, 21)]

def one(sid, props, suite):
    cmd = [os.path.join(HERE, "tools", "seedtest.py"), os.path.join(HERE, "seeded", sid), "--props", ",".join(props)] + (["--suite"] if suite else [])
    r = subprocess.run(cmd, capture_output=True, text=True, env=dict(os.environ, VF_PROCS="4"))
    try:
        return sid, json.loads(r.stdout)
    except Exception:
        return sid, {"error": r.stdout[-500:] + r.stderr[-500:]}

def main():
    matrix = "--matrix" in sys.argv
    suite = "--suite" in sys.argv
    seeds = sorted(d for d in os.listdir(os.path.join(HERE, "seeded")) if os.path.isdir(os.path.join(HERE, "seeded", d)))
    if "--only" in sys.argv:        # --only C02,C09 : the seeds of these properties only
        keep = set(sys.argv[sys.argv.index("--only") + 1].split(","))
        seeds = [s_ for s_ in seeds if s_[:3] in keep]
    rows = []
    with cf.ThreadPoolExecutor(max_workers=int(os.environ.get("VF_SEED_WORKERS", "3"))) as ex:
        futs = [ex.submit(one, s, ALL if matrix else [json.load(open(os.path.join(HERE, "seeded", s, "meta.json")))["property"]], suite) for s in seeds]
        for f in futs:
            sid, res = f.result()
            mp = os.path.join(HERE, "seeded", sid, "meta.json")
            meta = json.load(open(mp))
            caught = sorted(p for p in ALL if isinstance(res.get(p), dict) and res[p]["exit"] == 1 and res[p]["violations"] > 0)
            ver = meta.get("verified", {})
            ver.update({"demo_exit_without_change": res.get("demo_without"), "demo_exit_with_change": res.get("demo_with"),
                        "patch_applies": res.get("applied"), "ran": "tools/seedtest.py (scratch copy of /repo + patch; ./check <ID> quick with VF_REPO)"})
            if suite:
                ver["pinned_suite_with_change"] = res.get("suite")
            if matrix:
                ver["caught_by_quick_checks"] = caught
            else:
                ver["caught_by_own_quick_check"] = meta["property"] in caught
            meta["verified"] = ver
            json.dump(meta, open(mp, "w"), indent=1)
            rows.append((sid, meta, caught, res))
            print(sid, "caught by", caught, flush=True)
    if "--only" in sys.argv:
        return
    with open(os.path.join(HERE, "seeded", "RESULTS.md"), "w") as f:
        f.write("| seed | what the change does | needs | caught by (quick tier) |\n|---|---|---|---|\n")
        for sid, meta, caught, res in rows:
            f.write(f"| {sid} | {meta.get('summary','').replace('|','/')} | {meta.get('needs','').replace('|','/')} | {', '.join(caught) or 'MISSED'} |\n")

if __name__ == "__main__":
    main()
