#!/usr/bin/env python3
"""Regenerates MANIFEST.json from the table below (claimed = property module exists)."""
import json, os
HERE = os.path.dirname(os.path.dirname(os.path.abspath(__file__)))
T = {
 "C01": ("Hypothesis-generated model DAGs x enumerated/sampled leaf assignments; reference arithmetic evaluator + own A.x>=b by column id", "3/C01"),
 "C02": ("Hypothesis-generated models; full enumeration of polyhedron box points (MILP extreme points for large boxes) against reference evaluator, both directions", "3/C02"),
 "C03": ("Hypothesis-generated models x total interpretations in three value forms x overrides; reference arithmetic evaluator per node", "3/C03"),
 "C04": ("exhaustive small formula ASTs + Hypothesis-generated deeper ones via constructors/from_json/from_cicJE; textbook truth tables", "3/C04"),
 "C05": ("Hypothesis-generated models x enumerated assignments; complement oracle + solver-safe form predicate + id preservation", "3/C05"),
 "C06": ("Hypothesis-generated models x partial/interval interpretations x enumerated completions; containment oracle; exact flag/bounds by enumeration", "3/C06"),
 "C07": ("Hypothesis-generated models x assumption dicts x interpretations; metamorphic relation assume-then-evaluate == evaluate(union) + reference evaluator", "3/C07"),
 "C08": ("Hypothesis-generated models with fixed leaves/nodes; reduce() vs reference evaluator on all free interpretations; no-constant-left invariant", "3/C08"),
 "C09": ("Hypothesis stateful machine over pools of models/configurators incl. twins; fresh-twin reference process + structural snapshot invariant", "3/C09"),
 "C10": ("Hypothesis-generated adversarial id/bounds reuse; independent well-definedness predicate, both directions", "3/C10"),
 "C11": ("Hypothesis-generated integer systems; enumerated solution sets; projection equality after reduce", "3/C11"),
 "C12": ("Hypothesis-generated integer systems; enumerated solution sets / closed-form row bounds in Python ints", "3/C12"),
 "C13": ("Hypothesis-generated integer priority arrays; order/sign/strict-dominance predicates in Python ints", "3/C13"),
 "C14": ("Hypothesis-generated configurators x priority dicts; objective captured from solver callable; all feasible 0/1 pairs vs lexicographic key", "3/C14"),
 "C15": ("Hypothesis-generated models/configurators x objectives x marker/exact/None/raising solvers; column-by-id alignment and brute-force optimum", "3/C15"),
 "C16": ("Hypothesis-generated models/configurators; JSON dumps/loads round trip vs reference evaluator, id and default preservation", "3/C16"),
 "C17": ("Hypothesis-generated models/configurators/polyhedron configs; b64 round trip vs deep structural snapshot and identical query results", "3/C17"),
 "C18": ("Hypothesis-generated configurators x sequences of added rules; equality with direct construction, original untouched, clash refused", "3/C18"),
 "C19": ("Hypothesis-generated matrices x point arrays of ndim 1/2/3; per-point per-row Python-int arithmetic and output shapes", "3/C19"),
 "C20": ("Hypothesis-generated variable lists x dictionaries/lists x dtypes; position-by-id bookkeeping oracle", "3/C20"),
}
LEVEL_TEXT = ("Bounded generated-input search (property-based testing) against an explicit independent oracle; "
              "no violation found within the stated bounds is evidence, not proof. Appropriate because the property "
              "quantifies over inputs/histories of a pure single-threaded library and an executable oracle exists.")
NOTE = ("Trusted: Python 3.12/numpy arithmetic, Hypothesis generation+shrinking, the short reference oracles in "
        "vf/oracle.py and the property module; puan_rspy 0.3.0 is a fixed binary that is part of the system under test. "
        "Bounds: see DESIGN.md section per property and the evidence file's rule/classes.")
checks, na = [], []
for pid, (tech, ref) in T.items():
    if os.path.exists(os.path.join(HERE, "vf", "props", pid.lower() + ".py")):
        checks.append({
            "property_id": pid,
            "quick_cmd": f"./check {pid} quick",
            "thorough_cmd": f"./check {pid} thorough",
            "evidence_file": f"evidence/{pid}.json",
            "replay_cmd_template": f"./check {pid} --replay {{path}}",
            "engine": "hypothesis",
            "level_claimed": {"category": "exploration", "text": LEVEL_TEXT, "design_ref": "DESIGN.md §" + ref},
            "level_note": NOTE,
            "technique": "property-based testing: " + tech,
        })
    else:
        na.append({"property_id": pid, "reason": "check not yet implemented at this commit (planned, see DESIGN.md §" + ref + ")"})
man = {
 "version": 1,
 "setup_cmd": "./setup.sh",
 "hooks": {
  "guard": "PUAN_VERIF",
  "enable": "none needed - the checks import the working tree of /repo directly (pure Python, no build step); no hook commits exist",
  "baseline_off_cmd": "cd /repo && HYPOTHESIS_STORAGE_DIRECTORY=$(mktemp -d) /venv/bin/python -m pytest -ra -q -p no:cacheprovider --timeout=900 --continue-on-collection-errors",
  "source_commits": [],
  "add_only": True,
 },
 "engines": [
  {"name": "hypothesis", "path": ".deps/hypothesis", "serves_properties": sorted(T), "kind_free_text": "Hypothesis 6.168 property-based testing (incl. stateful machines), plus exhaustive enumeration of small finite sub-domains"},
 ],
 "checks": checks,
 "not_applicable": na,
 "notes": "All checks: ./check <ID> <quick|thorough>; replay: ./check <ID> --replay <file>. Exit 0/1/2 (2 = harness error). See DESIGN.md.",
}
with open(os.path.join(HERE, "MANIFEST.json"), "w") as f:
    json.dump(man, f, indent=1); f.write("\n")
print("claimed:", [c["property_id"] for c in checks], "n/a:", len(na))
