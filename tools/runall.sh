#!/bin/bash
# tools/runall.sh [quick|thorough] [IDs...] : run registered checks sequentially, one summary line each
cd "$(dirname "$0")/.."
TIER=${1:-quick}; shift
IDS=${@:-$(ls vf/props | grep -E '^c[0-9]+\.py$' | sed 's/\.py//' | tr a-z A-Z)}
for id in $IDS; do
  out=$(./check $id $TIER 2>&1); rc=$?
  echo "$id rc=$rc $(echo "$out" | grep -E "^(VIOLATION|KNOWN-FINDING|HARNESS)" | head -3 | tr '\n' ' ') $(echo "$out" | tail -1)"
done
