#!/bin/bash
# Runs the pinned test-suite on a scratch copy of /repo's working tree (never inside /repo: the suite writes a
# Hypothesis example database and a flaky draw would otherwise be replayed for ever). Prints pass/fail counts
# and the names of the failing tests that are in the pinned stable set.
set -e
D=$(mktemp -d /tmp/vfsuite-XXXX); H=$(mktemp -d /tmp/vfhyp-XXXX)
trap 'rm -rf "$D" "$H"' EXIT
(cd /repo && git ls-files -z | xargs -0 cp --parents -t "$D")
cd "$D"
HYPOTHESIS_STORAGE_DIRECTORY="$H" /venv/bin/python -m pytest -ra -q -p no:cacheprovider --timeout=900 --continue-on-collection-errors --junitxml="$D/j.xml" >"$D/out.txt" 2>&1 || true
tail -1 "$D/out.txt"
/venv/bin/python - "$D/j.xml" <<'PY'
import sys, json, xml.etree.ElementTree as ET
base = set(json.load(open("/root/.vp/BASELINE.json"))["stable_pass"])
passed = set(); failed = set()
for tc in ET.parse(sys.argv[1]).getroot().iter("testcase"):
    name = tc.get("classname") + "::" + tc.get("name")
    bad = any(ch.tag in ("failure", "error") for ch in tc)
    (failed if bad else passed).add(name)
print("pinned passing:", len(base & passed), "/", len(base), " pinned now failing:", sorted(base - passed))
PY
