#!/usr/bin/env python3
"""Mutant self-test:  tools/muttest.py [--suite] [--tier quick] [name-substring ...]

For each catalogued edit (mutants/catalogue.py: name, property, file, old, new[, expect]) copy /repo's
working tree to a scratch dir outside /repo and /verif, apply the edit (must match exactly once), optionally run the
pinned test-suite there (--suite), run ./check <property> <tier> with VF_REPO=<scratch>, and delete the scratch copy.
expect = "fail" (default; the check must exit 1 with a VIOLATION line) or "quiet" (property-preserving control)."""
import os, subprocess, sys, tempfile, shutil, importlib.util, concurrent.futures as cf
HERE = os.path.dirname(os.path.dirname(os.path.abspath(__file__)))
spec = importlib.util.spec_from_file_location("catalogue", os.path.join(HERE, "mutants", "catalogue.py"))
cat = importlib.util.module_from_spec(spec); spec.loader.exec_module(cat)

def run_one(m, suite, tier):
    name, prop, fn, old, new = m[:5]
    expect = m[5] if len(m) > 5 else "fail"
    d = tempfile.mkdtemp(prefix="vfmut-")
    try:
        subprocess.run(f"cd /repo && git ls-files -z | xargs -0 cp --parents -t {d}", shell=True, check=True)
        p = os.path.join(d, fn)
        src = open(p).read()
        if src.count(old) != 1:
            return name, prop, "SKIP(pattern matches %d times)" % src.count(old), ""
        open(p, "w").write(src.replace(old, new))
        suite_res = ""
        if suite:
            env = dict(os.environ, HYPOTHESIS_STORAGE_DIRECTORY=tempfile.mkdtemp(prefix="vfhyp-"))
            r = subprocess.run("/venv/bin/python -m pytest -q -p no:cacheprovider --timeout=900 2>&1 | grep -E ' passed| failed' | tail -1", shell=True, cwd=d, env=env, capture_output=True, text=True)
            shutil.rmtree(env["HYPOTHESIS_STORAGE_DIRECTORY"], ignore_errors=True)
            suite_res = "suite:" + (r.stdout.strip().splitlines() or ["?"])[-1][:60]
        out = []
        for pr in prop.split(","):
            env = dict(os.environ, VF_REPO=d, VF_EVIDENCE_DIR=os.path.join(d, "_ev"), VF_PROCS=os.environ.get("VF_MUT_PROCS", "4"))
            r = subprocess.run([os.path.join(HERE, "check"), pr, tier], capture_output=True, text=True, env=env)
            vio = "VIOLATION" in r.stdout
            ok = (r.returncode == 1 and vio) if expect == "fail" else (r.returncode == 0 and not vio)
            out.append(f"{pr}:exit={r.returncode}{'/VIOLATION' if vio else ''}:{'OK' if ok else 'MISSED' if expect=='fail' else 'FALSE-ALARM'}")
            if r.returncode == 2:
                out.append(r.stderr[-400:])
        return name, prop, " ".join(out) + f" (expect {expect})", suite_res
    finally:
        shutil.rmtree(d, ignore_errors=True)

def main():
    args = sys.argv[1:]
    suite = "--suite" in args
    tier = "quick"
    if "--tier" in args:
        tier = args[args.index("--tier") + 1]
        args.remove("--tier"); args.remove(tier)
    pats = [a for a in args if not a.startswith("--")]
    todo = [m for m in cat.M if not pats or any(p in m[0] or p == m[1] for p in pats)]
    with cf.ThreadPoolExecutor(max_workers=int(os.environ.get("VF_MUT_PAR", "4"))) as ex:
        for name, prop, res, sres in ex.map(lambda m: run_one(m, suite, tier), todo):
            print(f"{name:28s} {res} {sres}", flush=True)

if __name__ == "__main__":
    main()
