#!/usr/bin/env python3
"""tools/seedresults.py : rebuild seeded/RESULTS.md from the meta.json files (fields written by tools/seedall.py / seedtest.py
and the recorded outcome of the round in which the change was taken)."""
import json, os
HERE = os.path.dirname(os.path.dirname(os.path.abspath(__file__)))
rows = []
for sid in sorted(os.listdir(os.path.join(HERE, "seeded"))):
    mp = os.path.join(HERE, "seeded", sid, "meta.json")
    if not os.path.isfile(mp):
        continue
    m = json.load(open(mp))
    v = m.get("verified", {})
    own = v.get("caught_by_own_quick_check")
    if own is None and "caught_by_quick_checks" in v:
        own = m.get("property") in v["caught_by_quick_checks"]
    cell = lambda t: str(t or "").replace("|", "/").replace("\n", " ")
    rows.append(f"| {sid} | {m.get('property')} | {cell(m.get('summary'))[:240]} | {cell(m.get('needs'))[:200]} | "
                f"{'yes' if own else 'NO' if own is not None else '?'} | {cell(m.get('outcome'))[:300]} |")
with open(os.path.join(HERE, "seeded", "RESULTS.md"), "w") as f:
    f.write("Seeded changes (one directory each: patch.diff, demo.py, meta.json). Last sweep: `tools/seedall.py` on the final tree, VERIF_SEED=1.\n\n")
    f.write("| seed | property | what the change does | needs | caught by its property's quick check (last sweep) | recorded outcome |\n|---|---|---|---|---|---|\n")
    f.write("\n".join(rows) + "\n")
print(len(rows), "rows")
