#!/usr/bin/env python3
"""Regenerate the 'As-built parts' table of DESIGN.md from the property modules (run through ./check's environment):
   PYTHONPATH=/verif:/verif/.deps:/repo /venv/bin/python tools/partstable.py [--write]"""
import importlib
import re
import sys


def rows():
    out = []
    for i in range(1, 21):
        pid = "C%02d" % i
        mod = importlib.import_module("vf.props.c%02d" % i)
        q = {p.name: p for p in mod.parts("quick")}
        t = {p.name: p for p in mod.parts("thorough")}
        groups = {}
        order = []
        for name, p in q.items():
            base = re.sub(r"\d+$", "", name) if p.enumerate_cases is not None else name
            if base not in groups:
                groups[base] = []
                order.append(base)
            groups[base].append(name)
        for base in order:
            names = groups[base]
            p = q[names[0]]
            pt = t.get(names[0], p)
            if p.enumerate_cases is not None:
                label = f"`{base}*` ({len(names)} slices)" if len(names) > 1 else f"`{base}`"
                out.append(f"| {pid} | {label} | exhaustive enumeration | all | all |")
                continue
            engine = "state machine" if p.machine is not None else "Hypothesis"
            if p.fuzz is not None:
                engine += " + atheris (thorough)"
            out.append(f"| {pid} | `{base}` | {engine} | {p.quick[0]}×{p.quick[1]} | {pt.thorough[0]}×{pt.thorough[1]} |")
    return out


if __name__ == "__main__":
    table = "| id | part | engine | quick (shards×cases) | thorough (shards×cases) |\n|---|---|---|---|---|\n" + "\n".join(rows()) + "\n"
    if "--write" in sys.argv:
        path = __file__.rsplit("/tools/", 1)[0] + "/DESIGN.md"
        txt = open(path).read()
        new = re.sub(r"\| id \| part \| engine \|.*?\n\n", lambda m_: table + "\n", txt, count=1, flags=re.S)
        open(path, "w").write(new)
    else:
        print(table)
