#!/bin/bash
# tools/seedsweep.sh "<seeds>" : every seeded change against its own property's quick check at several VERIF_SEED values
cd "$(dirname "$0")/.."
for sd in ${1:-2 3}; do
  for d in seeded/*/; do
    id=$(basename $d)
    VERIF_SEED=$sd tools/seedtest.py seeded/$id 2>/dev/null | python3 -c "
import json,sys; d=json.load(sys.stdin); p=d['property']; print('seed=$sd', d['seed'], p, 'exit', d[p]['exit'], 'viol', d[p]['violations'], '' if d[p]['exit']==1 else '   <<<<<< MISSED')"
  done
done
