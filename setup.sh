#!/bin/bash
# setup_cmd: install the verification engines into /verif/.deps (offline, idempotent).
set -e
cd "$(dirname "$0")"
DEPS="$PWD/.deps"
PY=/venv/bin/python
need=0
PYTHONPATH="$DEPS" $PY - <<'PY' 2>/dev/null || need=1
import hypothesis, scipy.optimize, sortedcontainers
assert hypothesis.__version__.startswith("6.168"), hypothesis.__version__
PY
if [ "$need" = 1 ]; then
  rm -rf "$DEPS"; mkdir -p "$DEPS"
  PIP_NO_INDEX=1 /venv/bin/pip install -q --no-index --find-links /opt/veriftools/wheels \
      --target "$DEPS" --no-deps hypothesis sortedcontainers attrs scipy >/dev/null
  # atheris is optional (thorough tier of C10/C16 only)
  PIP_NO_INDEX=1 /venv/bin/pip install -q --no-index --find-links /opt/veriftools/wheels \
      --target "$DEPS" --no-deps atheris >/dev/null 2>&1 || echo "setup: atheris not installed (optional)"
fi
PYTHONPATH="$DEPS" $PY - <<'PY'
import hypothesis, scipy.optimize, numpy
print("setup ok: hypothesis", hypothesis.__version__, "scipy", scipy.__version__, "numpy", numpy.__version__)
try:
    import atheris; print("atheris ok")
except Exception as e:
    print("atheris unavailable:", e)
PY
