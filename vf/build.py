"""spec -> fresh puan objects. The only module that calls puan constructors. Kept free of logic.

Model spec grammar (JSON-able):

  model  := node | {"shared": [node, ...], "root": node}
  node   := {"k": "leaf", "id": str, "b": [lo, hi], "str": bool?, "sub": bool?, "dt": "int"|"bool"?, "dt_only": bool?}
          | {"k": "ref", "i": int}                              # i-th shared compound (same object)
          | {"k": "AtLeast", "v": int, "s": 1|-1|null, "id": str|null, "fix": 0|1|null, "c": [node...]}
          | {"k": "AtMost",  "v": int, "id":..., "fix":..., "c": [...]}
          | {"k": "All"|"Any"|"Xor"|"ExactlyOne"|"XNor", "id":..., "fix":..., "c": [...]}
          | {"k": "Imply", "id":..., "fix":..., "c": [condition, consequence]}
          | {"k": "Not", "c": [node]}
          | {"k": "cAny"|"cXor", "id":..., "c": [...], "default": [str...]|null}   # configurator classes
          | {"k": "Stingy", "id": str|null, "c": [...]}
"""
import functools
import sys


def mods():
    import puan
    import puan.logic.plog as pg
    import puan.ndarray as pnd
    import puan.modules.configurator as cc
    return puan, pg, pnd, cc


def item_class():
    """a user-defined subclass of puan.variable (the library supports them, see
    test_constructing_proposition_model_with_variable_sub_classes); module level so that pickle finds it"""
    g = globals()
    if "ItemVariable" not in g:
        puan = mods()[0]
        cls = type("ItemVariable", (puan.variable,), {"__doc__": "an item of a product catalogue"})
        cls.__module__ = __name__
        cls.__qualname__ = "ItemVariable"
        g["ItemVariable"] = cls
    return g["ItemVariable"]


def _var(node):
    puan = mods()[0]
    vid = node.get("id")
    fix = node.get("fix")
    if vid is None:
        return None
    if fix is None:
        if node.get("idvar"):
            return puan.variable(vid, (0, 1))
        return vid
    return puan.variable(vid, (fix, fix))


def node(spec, shared=None):
    puan, pg, pnd, cc = mods()
    k = spec["k"]
    if k == "leaf":
        b = tuple(spec["b"])
        if spec.get("str") and b == (0, 1):
            return spec["id"]
        if spec.get("sub"):
            return item_class()(spec["id"], b)
        if spec.get("dt") and not (spec["dt"] == "bool" and b != (0, 1)):     # (a spec edited to other bounds drops the bool declaration)
            # declared with the documented dtype argument next to (or instead of) explicit bounds
            if spec["dt"] == "int" and b == (-32768, 32767) and spec.get("dt_only"):
                return puan.variable(spec["id"], dtype="int")
            return puan.variable(spec["id"], b, dtype=spec["dt"])
        return puan.variable(spec["id"], b)
    if k == "ref":
        return shared[spec["i"]]
    ch = [node(c, shared) for c in spec.get("c", [])]
    if k in ("AtLeast", "AtMost") and spec.get("seq"):
        # the same children, handed over as another kind of iterable
        ch = {"tuple": tuple(ch), "iter": iter(list(ch)), "gen": (c for c in list(ch))}[spec["seq"]]
    if k == "AtLeast":
        return pg.AtLeast(spec["v"], ch, variable=_var(spec), sign=spec.get("s"))
    if k == "AtMost":
        return pg.AtMost(spec["v"], ch, variable=_var(spec))
    if k in ("All", "Any", "Xor", "ExactlyOne", "XNor"):
        if spec.get("fl"):
            return getattr(pg, k).from_list(list(ch), variable=_var(spec))      # the list-taking constructor
        return getattr(pg, k)(*ch, variable=_var(spec))
    if k == "Imply":
        return pg.Imply(ch[0], ch[1], variable=_var(spec))
    if k == "Not":
        return pg.Not(ch[0])
    if k == "cAny":
        return cc.Any(*ch, default=spec.get("default"), variable=_var(spec))
    if k == "cXor":
        return cc.Xor(*ch, default=spec.get("default"), variable=_var(spec))
    if k == "Stingy":
        return cc.StingyConfigurator(*ch, id=spec.get("id"))
    raise ValueError(f"unknown node kind {k!r}")


def model(spec):
    """Build a fresh object graph from a model spec."""
    if "root" in spec:
        shared = []
        for s in spec.get("shared", []):
            shared.append(node(s, shared))
        return node(spec["root"], shared)
    return node(spec, [])


def clear_caches():
    """Call cache_clear() on every functools cache reachable from the puan modules/classes,
    without naming any particular attribute."""
    seen = set()

    def visit(obj):
        for name, val in list(vars(obj).items()):
            cands = [val]
            if isinstance(val, property):
                cands = [val.fget, val.fset, val.fdel]
            elif isinstance(val, (staticmethod, classmethod)):
                cands = [val.__func__]
            for c in cands:
                if c is not None and hasattr(c, "cache_clear") and id(c) not in seen:
                    seen.add(id(c))
                    try:
                        c.cache_clear()
                    except Exception:
                        pass
            if isinstance(val, type) and getattr(val, "__module__", "").startswith("puan") and id(val) not in seen:
                seen.add(id(val))
                visit(val)

    for mname, m in list(sys.modules.items()):
        if (mname == "puan" or mname.startswith("puan.")) and m is not None:
            visit(m)
    return len(seen)


def polyhedron(spec):
    """{"m": [[b, a1, ...], ...], "vars": [[id, lo, hi], ...] (A columns), "index": [ids]|null}"""
    puan, pg, pnd, cc = mods()
    first = puan.variable.support_vector_variable()
    if spec.get("support") == "plain":
        first = puan.variable("0")          # column 0 labelled by an ordinary variable, as variable.from_strings("0", "x", ...) does
    variables = [first] + [
        (puan.variable(v[0], (v[1], v[2]), dtype=v[3]) if len(v) > 3 and v[3] else puan.variable(v[0], (v[1], v[2]))) for v in spec["vars"]]
    index = spec.get("index") or []
    index = [puan.variable(i, (0, 1)) for i in index]
    if spec.get("dtype"):
        # the matrix held in a narrower integer type (constructor parameter / .astype, as the library's own tests do)
        import numpy as np
        return pnd.ge_polyhedron(spec["m"], variables=variables, index=index, dtype=getattr(np, spec["dtype"]))
    return pnd.ge_polyhedron(spec["m"], variables=variables, index=index)
