"""Call histories for C09: concrete step execution, canonical results, reference process client.

A *provenance* is {"spec": model/configurator spec, "chain": [op, ...]} where op is a derive step
({"op": "assume", "d": [...]}, {"op": "reduce"}, {"op": "negate"}, {"op": "add", "rule": spec}, {"op": "json"}, {"op": "b64"}).
A *query* is a JSON dict {"q": name, ...args}. Both the session under test and the reference process use
``materialise`` and ``run_query`` from this module; the reference process rebuilds from the provenance for every request
in a process that has no history and clears every functools cache first.
"""
import json
import os
import subprocess
import sys

from vf import build, oracle, snapshot, solvers


# ------------------------------------------------------------------------------------------------ values
def interp(items):
    """[[id, form, a, b], ...] -> dict ; form 0 int, 1 (a,a), 2 Bounds(a,a), 3 (a,b), 4 Bounds(a,b)"""
    import puan
    d = {}
    for i, f, a, b in items:
        if f == 0:
            d[i] = a
        elif f == 1:
            d[i] = (a, a)
        elif f == 2:
            d[i] = puan.Bounds(a, a)
        elif f == 3:
            d[i] = (a, b)
        else:
            d[i] = puan.Bounds(a, b)
    return d


def canon(x):
    """canonical JSON-able form of any result"""
    import numpy as np
    import puan
    if isinstance(x, puan.Bounds):
        return ["B", int(x.lower), int(x.upper)]
    if isinstance(x, (bool, str, type(None))):
        return x
    if isinstance(x, (int, np.integer)):
        return int(x)
    if isinstance(x, (float, np.floating)):
        return float(x)
    if isinstance(x, np.ndarray):
        return snapshot.array(x)
    if isinstance(x, dict):
        return {str(k): canon(v) for k, v in sorted(x.items(), key=lambda kv: str(kv[0]))}
    if isinstance(x, (list, tuple)):
        return [canon(i) for i in x]
    if hasattr(x, "__dict__"):
        return snapshot.prop(x)
    return repr(x)


def materialise(prov):
    obj = build.model(prov["spec"])
    for op in prov.get("chain", []):
        obj = derive(obj, op)
    return obj


def derive(obj, op):
    import puan.logic.plog as pg
    import puan.modules.configurator as cc
    k = op["op"]
    if k == "assume":
        return obj.assume(interp(op["d"]))
    if k == "reduce":
        return obj.reduce()
    if k == "negate":
        return obj.negate()
    if k == "add":
        return obj.add(build.node(op["rule"], []))
    if k == "json":
        doc = json.loads(json.dumps(obj.to_json()))
        if type(obj).__name__ == "StingyConfigurator":
            return cc.StingyConfigurator.from_json(doc)
        return pg.from_json(doc)
    if k == "b64":
        return pg.from_b64(obj.to_b64())
    raise ValueError(k)


def run_query(obj, q, shared=None):
    """Execute one query; returns canonical result or {"raised": <type name>}. ``shared``: a dictionary object owned by
    the session; queries flagged "shared" put their interpretation into THAT object (cleared and refilled in place), the way
    a caller keeps one configuration dictionary and updates it between calls. The reference never shares."""
    try:
        return _run_query(obj, q, shared)
    except BaseException as e:  # noqa
        if isinstance(e, (KeyboardInterrupt, SystemExit)):
            raise
        return {"raised": type(e).__name__}


def _solver(name, log):
    return {"marker": solvers.marker(log), "exact": solvers.exact(log, 5000), "none": solvers.none_solver}[name]


def _run_query(obj, q, shared=None):
    import puan.logic.plog as pg
    k = q["q"]

    def given():
        d = interp(q["i"])
        if shared is not None and q.get("shared"):
            shared.clear()
            shared.update(d)
            return shared
        return d
    if k == "evaluate":
        return canon(obj.evaluate(given()))
    if k == "evaluate_propositions":
        return canon(obj.evaluate_propositions(given()))
    if k == "assume":
        return canon(obj.assume(given()))
    if k == "reduce":
        return canon(obj.reduce())
    if k == "negate":
        return canon(obj.negate())
    if k == "errors":
        return [str(e) for e in obj.errors()]
    if k == "flatten":
        return [[type(x).__name__, canon(x.to_short())] for x in obj.flatten()]
    if k == "to_json":
        return json.loads(json.dumps(obj.to_json()))
    if k == "to_text":
        return obj.to_text()
    if k == "to_short":
        return canon(obj.to_short())
    if k == "b64_roundtrip":
        return canon(pg.from_b64(obj.to_b64()))
    if k == "to_ge_polyhedron":
        return canon(obj.to_ge_polyhedron(q["active"]))
    if k == "flags":
        return [bool(obj.is_tautology), bool(obj.is_contradiction), canon(obj.equation_bounds)]
    if k == "inspect":
        # the read-only views of a model
        return [str(obj.id), canon(obj.bounds), canon(obj.equation_bounds),
                [str(getattr(v, "id", v)) for v in obj.variables],
                [[str(v.id), canon(v.bounds)] for v in obj.atomic_propositions],
                [[type(x).__name__, str(x.id)] for x in obj.compound_propositions]]
    if k == "solve":
        log = []
        res = list(obj.solve([dict(o) for o in q["objs"]], solver=_solver(q["solver"], log), include_virtual_variables=q["virtual"]))
        return [canon(res), [x["objectives"] for x in log]]
    if k == "ge_polyhedron":
        return canon(obj.ge_polyhedron)
    if k == "poly_analysis":
        # the read-only analysis functions of the polyhedron a configurator hands out (ONE cached object per configurator);
        # neglect_columns is left out - it writes through a view on the unchanged code (DESIGN section 10)
        import numpy as np
        P = obj.ge_polyhedron
        n = P.shape[1] - 1
        pat = np.array([[1] * min(3, n) + [0] * (n - min(3, n)), ([0, 1] + [0] * n)[:n]])
        pts = np.array([[0] * n, [1] * n, [j % 2 for j in range(n)]])
        out = []
        for name, f in (("neglectable_columns", lambda: P.neglectable_columns(pat)), ("reducable_columns_approx", lambda: P.reducable_columns_approx()),
                        ("reducable_rows", lambda: P.reducable_rows()), ("reducable_rows_and_columns", lambda: P.reducable_rows_and_columns()),
                        ("reduce", lambda: P.reduce(*P.reducable_rows_and_columns())), ("tighten_column_bounds", lambda: P.tighten_column_bounds()),
                        ("row_bounds", lambda: P.row_bounds()), ("column_bounds", lambda: P.column_bounds()), ("row_distribution", lambda: P.row_distribution(0)),
                        ("n_row_combinations", lambda: P.n_row_combinations), ("to_linalg", lambda: P.to_linalg()), ("A_max", lambda: P.A_max),
                        ("A_min", lambda: P.A_min), ("ineqs_satisfied", lambda: P.ineqs_satisfied(pts)), ("separable", lambda: P.separable(pts)),
                        ("ineq_separate_points", lambda: P.ineq_separate_points(pts)), ("construct", lambda: P.A.construct({}))):
            try:
                r = f()
                r = [np.asarray(x).tolist() for x in r] if isinstance(r, tuple) else np.asarray(r).tolist()
            except BaseException as e:  # noqa
                if isinstance(e, (KeyboardInterrupt, SystemExit)):
                    raise
                r = {"raised": type(e).__name__}
            out.append([name, r])
        return out
    if k == "default_prios":
        return canon(obj.default_prios)
    if k == "leafs":
        return [canon(x) for x in obj.leafs()]
    if k == "select":
        log = []
        res = list(obj.select(*[dict(p) for p in q["prios"]], solver=_solver(q["solver"], log), only_leafs=q["only_leafs"]))
        return [canon(res), [x["objectives"] for x in log]]
    if k == "add":
        return canon(obj.add(build.node(q["rule"], [])))
    if k == "derive":
        return canon(derive(obj, q["op"]))
    raise ValueError(k)


MODEL_QUERIES = ["evaluate", "evaluate_propositions", "assume", "reduce", "negate", "errors", "flatten", "to_json", "to_text",
                 "to_short", "b64_roundtrip", "to_ge_polyhedron", "flags", "solve", "inspect"]
CFG_QUERIES = ["ge_polyhedron", "default_prios", "leafs", "select", "add", "ge_polyhedron", "select", "poly_analysis", "select"]


# ------------------------------------------------------------------------------------------------ reference process
class Ref:
    """client of a long-lived clean reference process (started before anything was queried here)"""

    def __init__(self):
        env = dict(os.environ)
        self.p = subprocess.Popen([sys.executable, "-m", "vf.refproc"], stdin=subprocess.PIPE, stdout=subprocess.PIPE, stderr=subprocess.DEVNULL,
                                  env=env, text=True, bufsize=1)

    def ask(self, prov, query):
        self.p.stdin.write(json.dumps({"prov": prov, "query": query}) + "\n")
        self.p.stdin.flush()
        line = self.p.stdout.readline()
        if not line:
            raise RuntimeError("reference process died")
        return json.loads(line)["result"]

    def close(self):
        try:
            self.p.stdin.close()
            self.p.wait(timeout=5)
        except Exception:
            self.p.kill()


_REF = None


def ref():
    global _REF
    if _REF is None or _REF.p.poll() is not None:
        _REF = Ref()
    return _REF
