"""Reference oracles. Pure Python ints; no call into puan's evaluate/assume/negate/reduce/flatten.

Two evaluators:
  * obj_value  - arithmetic truth function over a *built* object graph, reading only the data
                 attributes (sign, value, propositions, variable id/bounds) - C01-C03, C06-C08.
  * spec_value - textbook connective semantics over the *spec* - C04, C05, C16.
"""
import itertools


def is_leaf(x):
    import puan
    return isinstance(x, puan.variable)


def walk(obj):
    """All nodes of the object graph (own DFS, every occurrence position visited once per object identity)."""
    out = []
    seen = set()
    stack = [obj]
    while stack:
        x = stack.pop()
        if id(x) in seen:
            continue
        seen.add(id(x))
        out.append(x)
        if not is_leaf(x):
            stack.extend(x.propositions)
    return out


def leaves(obj):
    """id -> (lo, hi) of all leaf variables (first occurrence wins; models are validated)."""
    res = {}
    for x in walk(obj):
        if is_leaf(x) and x.id not in res:
            res[x.id] = (int(x.bounds.lower), int(x.bounds.upper))
    return res


def compounds(obj):
    """id -> node for all compound nodes (first occurrence wins)."""
    res = {}
    for x in walk(obj):
        if not is_leaf(x) and x.id not in res:
            res[x.id] = x
    return res


def obj_value(node, env, overrides=None, memo=None, use_fixed=True):
    """Arithmetic value of a built node under total leaf environment ``env`` (id -> int).
    A compound whose id is in ``overrides`` takes that value; a compound whose own variable has
    constant bounds takes that constant (when use_fixed)."""
    if memo is None:
        memo = {}
    if is_leaf(node):
        return env[node.id]
    key = id(node)
    if key in memo:
        return memo[key]
    if overrides and node.id in overrides:
        v = overrides[node.id]
    elif use_fixed and node.variable.bounds.lower == node.variable.bounds.upper:
        v = int(node.variable.bounds.lower)
    else:
        s = 0
        for c in node.propositions:
            s += obj_value(c, env, overrides, memo, use_fixed)
        v = 1 if int(node.sign) * s >= int(node.value) else 0
    memo[key] = v
    return v


def spec_value(spec, env, shared=None):
    """Textbook semantics of a model spec on a total leaf environment."""
    if "root" in spec:
        return spec_value(spec["root"], env, spec.get("shared", []))
    k = spec["k"]
    if k == "leaf":
        return env[spec["id"]]
    if k == "ref":
        return spec_value(shared[spec["i"]], env, shared)
    if spec.get("fix") is not None:
        return spec["fix"]
    vals = [spec_value(c, env, shared) for c in spec["c"]]
    if k == "AtLeast":
        s = spec.get("s")
        if s is None:
            s = 1 if spec["v"] > 0 else -1
        return 1 if s * sum(vals) >= spec["v"] else 0
    if k == "AtMost":
        return 1 if sum(vals) <= spec["v"] else 0
    if k in ("All", "Stingy"):
        # conjunction of the truth values (arguments are truth values in the domain where it is used)
        return 1 if sum(vals) >= len(vals) else 0
    if k in ("Any", "cAny"):
        return 1 if sum(vals) >= 1 else 0
    if k in ("Xor", "ExactlyOne", "cXor"):
        return 1 if sum(vals) == 1 else 0
    if k == "XNor":
        return 1 if sum(vals) != 1 else 0
    if k == "Imply":
        # condition is "true" when >= 1 (a bare leaf condition is wrapped in All(leaf))
        return 1 if (vals[0] < 1 or vals[1] >= 1) else 0
    if k == "Not":
        return 1 if vals[0] < 1 else 0
    raise ValueError(k)


def spec_leaves(spec, shared=None, out=None):
    if out is None:
        out = {}
    if "root" in spec:
        for s in spec.get("shared", []):
            spec_leaves(s, spec.get("shared", []), out)
        return spec_leaves(spec["root"], spec.get("shared", []), out)
    if spec["k"] == "leaf":
        out.setdefault(spec["id"], tuple(spec["b"]))
    elif spec["k"] != "ref":
        for c in spec["c"]:
            spec_leaves(c, shared, out)
    return out


def spec_nodes(spec):
    """All node dicts of a model spec (shared defs included once)."""
    out = []

    def rec(n):
        out.append(n)
        for c in n.get("c", []):
            rec(c)
    if "root" in spec:
        for s in spec.get("shared", []):
            rec(s)
        rec(spec["root"])
    else:
        rec(spec)
    return out


def spec_depth(spec, shared=None):
    if "root" in spec:
        return spec_depth(spec["root"], spec.get("shared", []))
    if spec["k"] == "leaf":
        return 0
    if spec["k"] == "ref":
        return spec_depth(shared[spec["i"]], shared)
    return 1 + max([spec_depth(c, shared) for c in spec["c"]] or [0])


def box_size(bounds):
    n = 1
    for lo, hi in bounds:
        n *= (hi - lo + 1)
    return n


def box_points(ids, bounds):
    """Enumerate all integer points of the box as dicts id -> int."""
    ranges = [range(lo, hi + 1) for lo, hi in bounds]
    for p in itertools.product(*ranges):
        yield dict(zip(ids, p))


def solver_safe(obj):
    """No compound node sits under a parent whose sign is -1 (on the built object graph)."""
    for x in walk(obj):
        if not is_leaf(x) and int(x.sign) == -1:
            if any(not is_leaf(c) for c in x.propositions):
                return False
    return True


def rows(poly):
    """Polyhedron -> (column variable list without support column, list of (b, [a_j]) in Python ints)."""
    import numpy as np
    arr = np.asarray(poly)
    out = []
    for r in arr.tolist():
        out.append((int(r[0]), [int(a) for a in r[1:]]))
    return list(poly.variables[1:]), out


def row_holds(row, x):
    b, a = row
    s = 0
    for aj, xj in zip(a, x):
        if aj:
            s += aj * xj
    return s >= b


def all_rows_hold(rws, x):
    for r in rws:
        if not row_holds(r, x):
            return False
    return True


def as_int(v):
    """Bounds/tuple/int with constant value -> int, else None"""
    import puan
    if isinstance(v, puan.Bounds):
        return int(v.lower) if v.lower == v.upper else None
    if isinstance(v, tuple):
        return int(v[0]) if v[0] == v[1] else None
    return int(v)


def bounds_tuple(b):
    """(lower, upper) of a puan.Bounds result. Every way a caller reads such a result must tell the same story: the fields,
    as_tuple(), unpacking / iteration, equality with a Bounds and with a tuple (the library's own tests compare results
    that way), and ``constant``."""
    t = (int(b.lower), int(b.upper))
    if type(b).__name__ == "Bounds":
        from vf.core import Violation
        import puan
        views = {"as_tuple()": tuple(int(x) for x in b.as_tuple()), "tuple(bounds)": tuple(int(x) for x in b)}
        for name, v in views.items():
            if v != t:
                raise Violation(f"a returned Bounds reads {t} through .lower/.upper but {v} through {name}")
        if not (b == puan.Bounds(*t)) or not (b == t) or (b == puan.Bounds(t[0] - 1, t[1])) or (b == puan.Bounds(t[0], t[1] + 1)) or (b == (t[0], t[1] + 1)):
            raise Violation(f"a returned Bounds {t} does not compare like the pair it holds (== with Bounds / tuples)")
        c = b.constant
        if (c is None) != (t[0] != t[1]) or (c is not None and int(c) != t[0]):
            raise Violation(f"a returned Bounds {t} reports constant={c}")
    return t


def feasible_mask(rws, pts):
    """pts: list of integer tuples (columns in polyhedron order). Returns list of bools (all rows hold).
    Vectorised with int64 only when |a|*|x| sums provably stay below 2^62, else Python ints."""
    import numpy as np
    if not pts:
        return []
    ncol = len(pts[0])
    amax = max([abs(a) for _, row in rws for a in row] + [1])
    bmax = max([abs(b) for b, _ in rws] + [1])
    xmax = max([abs(v) for p in pts for v in p] + [1])
    if amax * xmax * max(ncol, 1) < 2 ** 62 and bmax < 2 ** 62:
        A = np.array([row for _, row in rws], dtype=np.int64).reshape(len(rws), ncol)
        b = np.array([b for b, _ in rws], dtype=np.int64)
        X = np.array(pts, dtype=np.int64).reshape(len(pts), ncol)
        return ((X @ A.T) >= b).all(axis=1).tolist()
    return [all_rows_hold(rws, p) for p in pts]


def milp_points(rws, bounds, objectives):
    """Candidate integer points from scipy's exact MILP (HiGHS): maximise each objective over
    {x integer in bounds : A x >= b}. Returned points are rounded; the CALLER must re-verify exactly."""
    import numpy as np
    from scipy.optimize import milp, LinearConstraint, Bounds as SB
    ncol = len(bounds)
    if not rws:
        return []
    A = np.array([row for _, row in rws], dtype=float).reshape(len(rws), ncol)
    b = np.array([b for b, _ in rws], dtype=float)
    cons = LinearConstraint(A, lb=b, ub=np.inf)
    bnd = SB([lo for lo, _ in bounds], [hi for _, hi in bounds])
    out = []
    for c in objectives:
        try:
            r = milp(c=-np.array(c, dtype=float), constraints=cons, integrality=np.ones(ncol), bounds=bnd,
                     options={"time_limit": 1.0})
        except Exception:
            continue
        if r is not None and r.x is not None:
            out.append(tuple(int(round(v)) for v in r.x))
    return out


def well_defined(obj):
    """Independent well-definedness predicate over a built object graph. Returns (ok, reason).
    (a) the id dependency graph is acyclic, (b) no node lists the same child id twice, (c) every id has a single
    definition: same variable bounds on every node carrying it, and all compound nodes carrying it agree on sign,
    value and the list of child ids."""
    nodes = walk(obj)
    bounds = {}
    defs = {}
    edges = {}
    for x in nodes:
        b = (int(x.bounds.lower), int(x.bounds.upper))
        if bounds.setdefault(x.id, b) != b:
            return False, f"id {x.id!r} carries bounds {bounds[x.id]} and {b}"
        if not is_leaf(x):
            cids = [c.id for c in x.propositions]
            if len(set(cids)) != len(cids):
                return False, f"node {x.id!r} lists a child id twice: {cids}"
            d = (int(x.sign), int(x.value), tuple(sorted(map(repr, cids))))
            if defs.setdefault(x.id, d) != d:
                return False, f"id {x.id!r} has two different definitions {defs[x.id]} and {d}"
            edges.setdefault(x.id, set()).update(cids)
    # cycle detection (iterative DFS, colours)
    WHITE, GREY, BLACK = 0, 1, 2
    colour = {}
    for start in edges:
        if colour.get(start, WHITE) != WHITE:
            continue
        stack = [(start, iter(edges.get(start, ())))]
        colour[start] = GREY
        while stack:
            node, it = stack[-1]
            for nxt in it:
                c = colour.get(nxt, WHITE)
                if c == GREY:
                    return False, f"cycle through id {nxt!r}"
                if c == WHITE:
                    colour[nxt] = GREY
                    stack.append((nxt, iter(edges.get(nxt, ()))))
                    break
            else:
                colour[node] = BLACK
                stack.pop()
    return True, ""
