"""Reference process for C09. Reads {"prov":..., "query":...} lines; for EVERY request it forks a child from its pristine
state (puan imported, nothing ever built or queried), the child rebuilds the object from its provenance, runs the query, writes
the canonical result and exits. The answering process therefore has no history whatsoever - not even module-level state
that is not a functools cache."""
import json
import os
import sys


def answer(req):
    from vf import build, hist
    build.clear_caches()
    try:
        obj = hist.materialise(req["prov"])
        res = hist.run_query(obj, req["query"])
    except BaseException as e:  # noqa
        res = {"raised_in_build": type(e).__name__}
    return json.dumps({"result": res}, default=str)


def main():
    import puan                      # noqa: F401  (import only; never used in this parent)
    import puan.logic.plog           # noqa: F401
    import puan.modules.configurator # noqa: F401
    from vf import build, hist       # noqa: F401
    out = sys.stdout
    for line in sys.stdin:
        line = line.strip()
        if not line:
            continue
        req = json.loads(line)
        r, w = os.pipe()
        pid = os.fork()
        if pid == 0:
            try:
                os.close(r)
                data = answer(req).encode()
                with os.fdopen(w, "wb") as f:
                    f.write(data)
            finally:
                os._exit(0)
        os.close(w)
        with os.fdopen(r, "rb") as f:
            data = f.read()
        os.waitpid(pid, 0)
        text = data.decode() if data else json.dumps({"result": {"raised_in_build": "child died"}})
        out.write(text + "\n")
        out.flush()


if __name__ == "__main__":
    main()
