"""Reference process for C09: answers {"prov":..., "query":...} lines with the result of the query on an object rebuilt
from scratch (all functools caches cleared first). It has no history by construction."""
import json
import sys


def main():
    from vf import build, hist
    out = sys.stdout
    for line in sys.stdin:
        line = line.strip()
        if not line:
            continue
        req = json.loads(line)
        build.clear_caches()
        try:
            obj = hist.materialise(req["prov"])
            res = hist.run_query(obj, req["query"])
        except BaseException as e:  # noqa
            res = {"raised_in_build": type(e).__name__}
        build.clear_caches()
        out.write(json.dumps({"result": res}, default=str) + "\n")
        out.flush()


if __name__ == "__main__":
    main()
