"""CLI:  python -m vf.run <ID> <quick|thorough>   |   python -m vf.run <ID> --replay <file>

Exit codes: 0 property held on everything explored (KNOWN-FINDING lines possible),
            1 violation (one ``VIOLATION property=<ID> replay=<path>`` line per distinct failure),
            2 harness error (never prints VIOLATION).
"""
import importlib
import json
import multiprocessing
import os
import sys
import time

from vf import core

HERE = os.path.dirname(os.path.dirname(os.path.abspath(__file__)))
REGRESS = os.path.join(HERE, "replays", "regress")
EVDIR = os.environ.get("VF_EVIDENCE_DIR") or os.path.join(HERE, "evidence")  # overridden only by the mutant self-test
FOUND = os.path.join(EVDIR, "found") if os.environ.get("VF_EVIDENCE_DIR") else os.path.join(HERE, "replays", "found")
FINDINGS = os.path.join(HERE, "known_findings.json")


def _shard(args):
    return core.run_shard(*args)


def _replay_task(args):
    prop, part_name, case, tier = args
    out = {"violation": None, "error": None}
    try:
        mod = importlib.import_module(f"vf.props.{prop.lower()}")
        part = next(p for p in mod.parts(tier) if p.name == part_name)
        ev = core.Ev()
        try:
            part.check(case, ev)
        except core.Violation as v:
            out["violation"] = v.detail
        except BaseException as e:  # noqa
            if not isinstance(e, (KeyboardInterrupt, SystemExit)) and core.from_puan(e):
                out["violation"] = f"unexpected exception from puan: {type(e).__name__}: {str(e)[:300]}"
            else:
                raise
    except BaseException as e:
        out["error"] = f"{type(e).__name__}: {e}\n{core.short_tb(e, 12)}"
    return out


def load_findings(prop):
    if not os.path.exists(FINDINGS):
        return []
    with open(FINDINGS) as f:
        data = json.load(f)
    return [e for e in data.get("findings", []) if e.get("property") == prop]


def load_replay(path):
    with open(path) as f:
        return json.load(f)


def rel(path):
    try:
        return os.path.relpath(path, HERE)
    except ValueError:
        return path


def save_found(prop, part, case, detail):
    os.makedirs(FOUND, exist_ok=True)
    path = os.path.join(FOUND, f"{prop}-{part}-{core.digest(case)}.json")
    with open(path, "w") as f:
        json.dump({"property": prop, "part": part, "case": case, "detail": detail}, f, indent=1, default=str)
    return rel(path)


def main(argv):
    if len(argv) < 2:
        print(__doc__)
        return 2
    prop = argv[0].upper()
    t0 = time.time()
    try:
        vseed = int(os.environ.get("VERIF_SEED", "1") or "1")
    except ValueError:
        vseed = 1
    ctx = multiprocessing.get_context("fork")

    if argv[1] == "--replay":
        rp = load_replay(argv[2])
        with ctx.Pool(1) as pool:
            res = pool.map(_replay_task, [(prop, rp["part"], rp["case"], "quick")])[0]
        if res["error"]:
            print("HARNESS ERROR\n" + res["error"], file=sys.stderr)
            return 2
        if res["violation"]:
            print(f"VIOLATION property={prop} replay={rel(os.path.abspath(argv[2]))}")
            print("  " + res["violation"].replace("\n", "\n  "))
            return 1
        print(f"{prop}: replay holds")
        return 0

    tier = argv[1]
    if tier not in ("quick", "thorough"):
        print(__doc__)
        return 2

    # Parent process deliberately never imports puan: module import only to enumerate parts
    # happens in a throw-away child.
    with ctx.Pool(1) as pool:
        meta = pool.map(_describe, [(prop, tier)])[0]
    if meta.get("error"):
        print("HARNESS ERROR\n" + meta["error"], file=sys.stderr)
        return 2

    violations = []      # (part, case, detail, replay_path)
    known_lines = []
    errors = []

    # --- replay tier: known findings + regression inputs -------------------------------------
    findings = load_findings(prop)
    open_keys = {e["key"] for e in findings if e.get("status") == "open"}
    replay_jobs = []
    for e in findings:
        if e.get("replay"):
            p = os.path.join(HERE, e["replay"])
            rp = load_replay(p)
            replay_jobs.append(("finding", e, p, rp))
    if os.path.isdir(REGRESS):
        listed = {os.path.join(HERE, e["replay"]) for e in findings if e.get("replay")}
        for fn in sorted(os.listdir(REGRESS)):
            p = os.path.join(REGRESS, fn)
            if fn.startswith(prop + "-") and fn.endswith(".json") and p not in listed:
                replay_jobs.append(("regress", None, p, load_replay(p)))
    n_replayed = 0
    if replay_jobs:
        with ctx.Pool(min(8, len(replay_jobs))) as pool:
            results = pool.map(_replay_task, [(prop, rp["part"], rp["case"], tier) for _, _, _, rp in replay_jobs])
        for (kind, entry, path, rp), res in zip(replay_jobs, results):
            n_replayed += 1
            if res["error"]:
                errors.append(f"replay {rel(path)}: {res['error']}")
            elif res["violation"]:
                if kind == "finding" and entry.get("status") == "open":
                    known_lines.append(f"KNOWN-FINDING: property={prop} {entry['key']} {entry['summary']}")
                else:
                    violations.append((rp["part"], rp["case"], res["violation"], rel(path)))

    # --- generated tier ------------------------------------------------------------------------
    tasks = []
    for pm in meta["parts"]:
        shards, n = pm["budget"]
        if pm["has_enum"]:
            tasks.append((prop, pm["name"], tier, 0, 0, True))
        if pm["has_gen"]:
            for i in range(shards):
                tasks.append((prop, pm["name"], tier, vseed * 1000 + i, n, False))
        if pm.get("fuzz") and tier == "thorough":
            for i in range(pm["fuzz"][0]):
                tasks.append((prop, pm["name"], tier, vseed * 1000 + 500 + i, pm["fuzz"][1], "fuzz"))
    nproc = min(16 if tier == "thorough" else 8, max(1, len(tasks)))
    nproc = int(os.environ.get("VF_PROCS", nproc))
    results = []
    if tasks:
        # Hard stop so that a non-terminating call in the code under test cannot stall the check for ever. It is far above
        # any normal run time (soft budgets end shards long before); hitting it is reported as a harness error, not as a
        # violation (a wall clock is not a correctness oracle).
        hard_limit = float(os.environ.get("VF_HARD_LIMIT", 1800 if tier == "quick" else 4 * 3600))
        deadline = time.time() + hard_limit
        with ctx.Pool(nproc, maxtasksperchild=1) as pool:
            it = pool.imap_unordered(_shard, tasks)
            for _ in range(len(tasks)):
                try:
                    results.append(it.next(timeout=max(1.0, deadline - time.time())))
                except multiprocessing.TimeoutError:
                    errors.append(f"shards still running after {hard_limit:.0f} s were killed (inconclusive)")
                    pool.terminate()
                    break

    # --- merge -----------------------------------------------------------------------------------
    evaluations = 0
    nontrivial = set()
    classes = {}
    counters = {}
    samples = []
    per_part = {}
    tolerated = set()
    exhaustive_parts = []
    for r in sorted(results, key=lambda r: (r["part"], r["seed"])):
        ev = r["ev"]
        evaluations += ev["evaluations"]
        nontrivial.update(r["part"] + ":" + d for d in ev["nontrivial"])
        pp = per_part.setdefault(r["part"], {"evaluations": 0, "distinct_nontrivial": set(), "shards": 0, "wall_s": 0.0})
        pp["evaluations"] += ev["evaluations"]
        pp["distinct_nontrivial"].update(ev["nontrivial"])
        pp["shards"] += 1
        pp["wall_s"] = max(pp["wall_s"], round(r["wall_s"], 2))
        for k, v in ev["classes"].items():
            classes[r["part"] + "/" + k] = classes.get(r["part"] + "/" + k, 0) + v
        for k, v in ev["counters"].items():
            counters[r["part"] + "/" + k] = counters.get(r["part"] + "/" + k, 0) + v
        if len([s for s in samples if s["part"] == r["part"]]) < 2:
            for s in ev["samples"][:2]:
                samples.append({"part": r["part"], "case": s})
        tolerated.update(r.get("tolerated", []))
        if r.get("exhaustive"):
            exhaustive_parts.append(r["part"])
        if "fuzz_executions" in r:
            counters[r["part"] + "/fuzz_executions"] = counters.get(r["part"] + "/fuzz_executions", 0) + r["fuzz_executions"]
        if r["error"]:
            errors.append(f"part {r['part']} seed {r['seed']}: {r['error']}")
        if r["violation"]:
            v = r["violation"]
            violations.append((r["part"], v["case"], v["detail"], None))
    for pp in per_part.values():
        pp["distinct_nontrivial"] = len(pp["distinct_nontrivial"])

    for key in sorted(tolerated):
        e = next((e for e in findings if e["key"] == key), None)
        line = f"KNOWN-FINDING: property={prop} {key} {e['summary'] if e else ''}"
        if key in open_keys and line not in known_lines:
            known_lines.append(line)

    # distinct minimal failures: one per (part, digest)
    seen = set()
    vio_lines = []
    for part, case, detail, path in violations:
        d = (part, core.digest(case))
        if d in seen:
            continue
        seen.add(d)
        if path is None:
            path = save_found(prop, part, case, detail)
        vio_lines.append((f"VIOLATION property={prop} replay={path}", part, detail))

    wall = time.time() - t0
    evidence = {
        "property_id": prop,
        "tier": tier,
        "seed": vseed,
        "level": "exploration",
        "coverage": {
            "evaluations": evaluations,
            "distinct_nontrivial": len(nontrivial),
            "rule": meta["rule"],
            "samples": samples[:8],
            "classes": dict(sorted(classes.items())),
            "counters": dict(sorted(counters.items())),
            "per_part": per_part,
            "replayed_inputs": n_replayed,
            "exhaustive": False,
            "exhaustive_parts": sorted(set(exhaustive_parts)),
            "known_findings_reproduced": known_lines,
        },
        "assumptions": meta["assumptions"],
        "wall_s": round(wall, 2),
        "violations": len(vio_lines),
    }
    os.makedirs(EVDIR, exist_ok=True)
    with open(os.path.join(EVDIR, f"{prop}.json"), "w") as f:
        json.dump(evidence, f, indent=1, default=str)
        f.write("\n")

    for line in known_lines:
        print(line)
    if errors:
        print("HARNESS ERROR", file=sys.stderr)
        for e in errors:
            print(e, file=sys.stderr)
        return 2
    for line, part, detail in vio_lines:
        print(line)
        print(f"  part={part}: " + str(detail).replace("\n", "\n  ")[:1500])
    print(f"{prop} {tier} seed={vseed}: evaluations={evaluations} distinct_nontrivial={len(nontrivial)} "
          f"replayed={n_replayed} violations={len(vio_lines)} wall={wall:.1f}s")
    return 1 if vio_lines else 0


def _describe(args):
    prop, tier = args
    try:
        mod = importlib.import_module(f"vf.props.{prop.lower()}")
        return {
            "rule": mod.RULE,
            "assumptions": list(getattr(mod, "ASSUMPTIONS", [])),
            "parts": [
                {"name": p.name, "budget": list(p.budget(tier)), "has_enum": p.enumerate_cases is not None, "fuzz": p.fuzz,
                 "has_gen": p.strategy is not None or p.machine is not None}
                for p in mod.parts(tier)
            ],
        }
    except BaseException as e:
        return {"error": f"{type(e).__name__}: {e}\n{core.short_tb(e, 12)}"}


if __name__ == "__main__":
    sys.exit(main(sys.argv[1:]))
