"""C17 - Base64 round trip reproduces propositions and configured polyhedra exactly."""
from hypothesis import strategies as st

from vf import build, oracle, snapshot, solvers, strategies as S
from vf.core import Part, Violation, call
from vf.props import common

PROPERTY = "C17"
RULE = ("Part 'lookalike_ids': ENUMERATED configurators whose leaf / group ids differ only in blanks, case, tab or unicode composition, with requests that name them. Part 'propositions': Hypothesis generates validated models (all connectives, integer leaves, pre-fixed nodes) and "
        "StingyConfigurator specs; from_b64(to_b64(x)) must have the same deep snapshot (generic walk over every instance "
        "attribute: class, id, bounds, sign, value, generated-id flag, prio, default, children...), the same to_text(), and "
        "must answer evaluate (on drawn/enumerated assignments), to_json and to_ge_polyhedron identically. Part 'configs': "
        "ge_polyhedron_config objects derived from configurators AND built directly from drawn matrices with explicit "
        "variables (boolean/integer bounds), explicit row index lists (1-7 rows) and explicit default prio vectors; "
        "from_b64(to_b64(p)) must have the same matrix, dtype, variable ids/bounds/classes, row index ids and default prio "
        "vector, and select() with a marker solver, an exact brute-force solver and the same drawn priorities must give "
        "identical objectives and identical results. Non-trivial = object with >=1 prio-tagged node or an integer leaf and "
        "nesting >=2 (propositions); explicit index with >=5 rows or non-default prio vector (configs); distinct = SHA-1 of "
        "the canonical case JSON.")
ASSUMPTIONS = ["pickle/gzip/base64 of the standard library are trusted"]


def check_prop(case, ev):
    import numpy as np
    import puan.logic.plog as pg
    spec = case["model"]
    m = common.build_valid(case, ev)
    if m is None:
        return
    dec = ["utf8", "ascii", "latin-1", "utf8"][len(str(spec)) % 4]      # base64 text is plain ASCII under every decoding
    s = call(m.to_b64, dec, what=f"to_b64({dec!r})")
    if call(m.to_b64, what="to_b64") != s:
        raise Violation(f"to_b64({dec!r}) differs from to_b64()")
    if not isinstance(s, str):
        raise Violation(f"to_b64 returned {type(s).__name__}")
    m2 = call(pg.from_b64, s, what="from_b64")
    a, b = snapshot.prop(m), snapshot.prop(m2)
    if a != b:
        raise Violation(f"deep structural snapshot differs after b64 round trip: {_diff(a, b)}")
    if call(m.to_text, what="to_text") != call(m2.to_text, what="to_text"):
        raise Violation("to_text() differs after b64 round trip")
    if call(m.to_json, what="to_json") != call(m2.to_json, what="to_json"):
        raise Violation("to_json() differs after b64 round trip")
    # the unpacked object, its nodes and its variables still COMPARE equal to the originals (==, membership), and the
    # structural queries list the same things
    f1 = call(m.flatten, what="flatten")
    f2 = call(m2.flatten, what="flatten")
    if [(type(x).__name__, str(x.id)) for x in f1] != [(type(x).__name__, str(x.id)) for x in f2]:
        raise Violation(f"flatten() differs after b64 round trip: {[str(x.id) for x in f1]} vs {[str(x.id) for x in f2]}")
    if not (m2 == m) or not (m == m2):
        raise Violation("the unpacked proposition does not compare equal (==) to the original")
    for x1, x2 in zip(f1, f2):
        if not (x2 == x1):
            raise Violation(f"the unpacked node / variable {x2!r} does not compare equal (==) to the original {x1!r}")
        if oracle.is_leaf(x1) and (not (x2 == x1.id) or x1 not in f2):
            raise Violation(f"the unpacked variable {x2!r} is not found by its id / by the original variable (==, in)")
    lv = oracle.leaves(m)
    comps = oracle.compounds(m)
    n = 0
    has_fixed = any(x.bounds.lower == x.bounds.upper for x in oracle.walk(m))
    if not any(i in lv for i in comps):
        for env in common.assignments(case, lv):
            n += 1
            if n > 12:
                break
            r1 = {k: oracle.bounds_tuple(v) for k, v in call(m.evaluate_propositions, dict(env), what="evaluate_propositions").items()}
            r2 = {k: oracle.bounds_tuple(v) for k, v in call(m2.evaluate_propositions, dict(env), what="evaluate_propositions").items()}
            if r1 != r2:
                raise Violation(f"evaluate_propositions differs after b64 round trip on {env}: {r1} vs {r2}")
        for act in ((True, False) if not has_fixed else ()):   # polyhedron of pre-fixed models is outside C01's domain
            p1 = snapshot.array(call(m.to_ge_polyhedron, act, what="to_ge_polyhedron"))
            p2 = snapshot.array(call(m2.to_ge_polyhedron, act, what="to_ge_polyhedron"))
            if p1 != p2:
                raise Violation(f"to_ge_polyhedron(active={act}) differs after b64 round trip")
    is_cfg = spec.get("k") == "Stingy"
    if is_cfg:
        build.clear_caches()
        d1 = {k: int(v) for k, v in m.default_prios.items()}
        g1 = snapshot.array(m.ge_polyhedron)
        build.clear_caches()
        d2 = {k: int(v) for k, v in m2.default_prios.items()}
        g2 = snapshot.array(m2.ge_polyhedron)
        build.clear_caches()
        if d1 != d2:
            raise Violation(f"default_prios differ after b64 round trip: {d1} vs {d2}")
        if g1 != g2:
            raise Violation("configurator ge_polyhedron differs after b64 round trip")
    has_prio = any(hasattr(x, "prio") for x in oracle.walk(m))
    has_int = any(bd != (0, 1) for bd in lv.values())
    cl = ["configurator" if is_cfg else "model"]
    if not is_cfg:
        cl += common.model_classes(spec, m)
    if has_prio:
        cl.append("prio_tagged_node")
    if any(getattr(x, "default", None) for x in oracle.walk(m)):
        cl.append("has_default")
    ev.case(case, has_prio or (has_int and oracle.spec_depth(spec) >= 2), cl)


def _diff(a, b, path=""):
    if type(a) != type(b):
        return f"{path}: {str(a)[:80]} vs {str(b)[:80]}"
    if isinstance(a, dict):
        for k in sorted(set(a) | set(b)):
            if a.get(k) != b.get(k):
                return _diff(a.get(k), b.get(k), path + "." + str(k))
    if isinstance(a, list):
        if len(a) != len(b):
            return f"{path}: lengths {len(a)} vs {len(b)}"
        for i, (x, y) in enumerate(zip(a, b)):
            if x != y:
                return _diff(x, y, path + f"[{i}]")
    return f"{path}: {str(a)[:80]} vs {str(b)[:80]}"


# ------------------------------------------------------------------------------------------------ configs
@st.composite
def config_case(draw, tier):
    if draw(st.integers(0, 2)) == 0:
        return {"from": "configurator", "model": draw(S.configurator_spec()),
                "prios": _prios(draw, ["a", "b", "c", "d", "e", "f", "g", "R1", "R2", "zz"])}
    nrows = draw(st.integers(1, 7))
    ncols = draw(st.integers(1, 6))
    vids = draw(st.lists(st.sampled_from(["a", "b", "c", "d", "e", "f", "g", "h", "x1", "y", "å", "B2"]), min_size=ncols, max_size=ncols, unique=True))
    id_style = draw(st.sampled_from(["str", "str", "positional", "ints"]))
    if id_style == "positional":
        vids = list(range(1, ncols + 1))          # with the support variable (id 0) exactly the ids the constructor would generate
    elif id_style == "ints":
        vids = [10 * (j + 1) + 3 for j in range(ncols)]
    vars_ = []
    for v in vids:
        b = draw(st.sampled_from([(0, 1), (0, 1), (0, 1), (0, 2), (-1, 1), (1, 1), (0, 3)]))
        vars_.append([v, b[0], b[1]])
    m = [[draw(st.integers(-3, 2))] + [draw(st.sampled_from([0, 0, 1, 1, -1, -1, 2, -2])) for _ in range(ncols)] for _ in range(nrows)]
    if draw(st.integers(0, 2)) == 0:
        # entries at the ends of the fixed-width integer types (a "pack it smaller" step would wrap exactly there)
        for _ in range(draw(st.integers(1, 3))):
            r_, c_ = draw(st.integers(0, nrows - 1)), draw(st.integers(0, ncols))
            m[r_][c_] = draw(st.sampled_from([127, 128, 129, -128, -129, 255, 256, 32767, 32768, -32768, -32769, 65535, 65536,
                                              2 ** 31 - 1, 2 ** 31, -(2 ** 31), 2 ** 31 + 1, 2 ** 40]))
    index = draw(st.one_of(st.none(), st.just(["r%d" % (7 - i) for i in range(nrows)]), st.just(list(range(10, 10 + nrows))), st.just(list(range(nrows)))))
    dpv = draw(st.one_of(st.none(), st.lists(st.sampled_from([-1, -1, -2, -3, 0]), min_size=ncols, max_size=ncols)))
    return {"from": "matrix", "m": m, "vars": vars_, "index": index, "dpv": dpv, "prios": _prios(draw, vids + ["zz"]),
            "plain_index": draw(st.integers(0, 3)) == 0, "dtype": draw(st.sampled_from([None, None, "int8", "int16", "int32"]))}


def _prios(draw, ids):
    n = draw(st.integers(0, 3))
    out = []
    for _ in range(n):
        d = draw(st.dictionaries(st.sampled_from(ids), st.sampled_from([1, 2, 3, -1, -2, 1, 2]), max_size=4))
        out.append(sorted(d.items(), key=lambda kv: str(kv[0])))
    return [[list(kv) for kv in o] for o in out]


def _build_config(case, ev):
    import numpy as np
    import puan
    import puan.ndarray as pnd
    if case["from"] == "configurator":
        c = common.build_valid(case, ev)
        if c is None:
            return None
        build.clear_caches()
        return call(lambda: c.ge_polyhedron, what="ge_polyhedron")
    variables = [puan.variable.support_vector_variable()] + [puan.variable(v[0], (v[1], v[2])) for v in case["vars"]]
    index = [puan.variable(i, (0, 1)) for i in case["index"]] if case["index"] else []
    if case.get("plain_index") and case["index"]:
        index = list(case["index"])                      # the row index handed over as plain ints / strs
    dpv = np.array(case["dpv"]) if case["dpv"] is not None else None
    kw = {}
    if case.get("dtype"):
        mx = max([abs(int(x)) for r in case["m"] for x in r] + [0])
        if mx <= {"int8": 127, "int16": 32767, "int32": 2 ** 31 - 1}[case["dtype"]]:
            kw["dtype"] = getattr(np, case["dtype"])      # the matrix held in a narrow integer type
    return pnd.ge_polyhedron_config(case["m"], default_prio_vector=dpv, variables=variables, index=index, **kw)


def _select(p, prios, solver):
    res = call(p.select, *prios, solver=solver, what="select")
    out = []
    for conf, ov, sc in res:
        out.append([sorted((str(k), int(v)) for k, v in conf.items()), None if ov is None else int(ov), int(sc)])
    return out


def check_config(case, ev):
    import numpy as np
    import puan.ndarray as pnd
    p = _build_config(case, ev)
    if p is None:
        return
    s = call(p.to_b64, what="to_b64")
    p2 = call(pnd.ge_polyhedron_config.from_b64, s, what="from_b64")
    if type(p2).__name__ != "ge_polyhedron_config":
        raise Violation(f"from_b64 returned {type(p2).__name__}")
    a, b = snapshot.array(p), snapshot.array(p2)
    if a != b:
        raise Violation(f"configured polyhedron differs after b64 round trip: {_diff(a, b)}")
    prios = [dict((k, v) for k, v in pr) for pr in case["prios"]]
    if prios:
        for name, mk in (("marker", solvers.marker), ("exact", lambda log: solvers.exact(log, 5000))):
            l1, l2 = [], []
            r1 = _select(p, prios, mk(l1))
            r2 = _select(p2, prios, mk(l2))
            if [x["objectives"] for x in l1] != [x["objectives"] for x in l2]:
                raise Violation(f"objectives handed to the {name} solver differ after b64 round trip: "
                                f"{[x['objectives'] for x in l1]} vs {[x['objectives'] for x in l2]}")
            if r1 != r2:
                raise Violation(f"select() with the {name} solver differs after b64 round trip: {r1} vs {r2}")
    nrows = np.asarray(p).shape[0]
    explicit_index = case.get("index") is not None
    nondefault_dpv = any(int(x) != -1 for x in np.asarray(p.default_prio_vector).tolist())
    cl = ["from_" + case["from"], "rows>=5" if nrows >= 5 else "rows<5"]
    if explicit_index:
        cl.append("explicit_index")
    if nondefault_dpv:
        cl.append("non_default_prio_vector")
    if prios:
        cl.append("select_compared")
    ev.case(case, (explicit_index and nrows >= 5) or nondefault_dpv, cl)


@st.composite
def prop_case(draw, tier):
    if draw(st.integers(0, 2)) == 0:
        return {"model": draw(S.configurator_spec()), "points": None}
    if draw(st.integers(0, 7)) == 0:
        # thresholds and bounds beyond the small-integer range (quantities, weights): 257 .. 10^6
        q = draw(st.sampled_from([257, 300, 1000, 65536, 10 ** 6]))
        L = lambda i, hi: {"k": "leaf", "id": i, "b": [0, hi]}
        big = {"k": "AtLeast", "v": q, "s": 1, "id": draw(st.sampled_from(["BIG", None])), "c": [L("weight_a", 2 * q), L("weight_b", q)]}
        cap = {"k": "AtMost", "v": 3 * q, "id": "CAP", "c": [L("weight_a", 2 * q), L("weight_c", 2 * q)]}
        return {"model": {"k": draw(st.sampled_from(["All", "Any"])), "id": "top", "c": [big, cap, {"k": "leaf", "id": "flag", "b": [0, 1]}]},
                "points": [[q, 0, q, 1], [2 * q, q, 0, 0], [0, 0, 0, 1], [q - 1, 1, 2 * q, 0]]}
    return draw(common.model_case(guard=64, n_points=(6, 12), depth=3 if tier == "quick" else 4, allow_fix=True,
                                  allow_const_leaves=True, profile=draw(st.sampled_from(["small", "large"]))))


def empty(slice_i, n):
    """groups without sub-propositions, alone and inside every connective"""
    from vf import strategies as S_
    for spec in S_.empty_shapes(slice_i, n):
        yield {"model": spec, "points": None}

def lookalike_cases(tier):
    """ENUMERATED: models / configurators whose ids are distinct but LOOK alike (surrounding blanks, case, unicode composition,
    a tab), as leaf ids and as ids of sub-propositions; the round trip must keep every id as it is"""
    L = lambda i: {"k": "leaf", "id": i, "b": [0, 1]}
    pairs = [("pump", "pump "), ("pump", " pump"), ("pump", "Pump"), ("pump", "pump\t"), ("\u00e5", "a\u030a"), ("x", "\uff58"), ("1", "01")]
    for i1, i2 in pairs:
        cfgs = [{"k": "Stingy", "id": "conf", "c": [{"k": "cXor", "id": "X", "c": [L(i1), L(i2), L("r")], "default": [i2]}, L("item")]},
                {"k": "Stingy", "id": "conf", "c": [{"k": "cAny", "id": i1, "c": [L("p"), L("q")], "default": ["p"]}, {"k": "Any", "id": i2, "c": [L("item"), L("r")]}]},
                {"k": "Stingy", "id": "conf", "c": [{"k": "Imply", "id": "R", "c": [L(i1), {"k": "cXor", "id": None, "c": [L(i2), L("p")], "default": [i2]}]}, L("item")]}]
        for c_ in cfgs:
            yield {"from": "configurator", "model": c_, "prios": [[["item", 1], [i1, 2]], [[i2, 1]], [[i2, -1], [i1, 1]]]}


def parts(tier):
    return [Part("lookalike_ids", enumerate_cases=lookalike_cases, check=check_config, time_quick=100.0), Part("cfg_shapes", enumerate_cases=(lambda t: ({"from": "configurator", "model": s_, "prios": [[["item", 1], ["p", 2]]]} for s_ in S.cfg_small_shapes())), check=check_config, time_quick=150.0), Part("scale_configs", strategy=lambda t: S.big_configurator_spec().map(lambda s_: {"from": "configurator", "model": s_, "prios": [[["g000_b", 2], ["g001_a", 1]], [["it000", -1], ["g002_c", 3]]]}), check=check_config, quick=(1, 12), thorough=(2, 150)), Part("scale", strategy=lambda t: __import__("vf.strategies", fromlist=["x"]).scale_case(), check=check_prop, quick=(1, 30), thorough=(2, 400)), Part("empty0", enumerate_cases=(lambda t: empty(0, 1)), check=check_prop, time_quick=120.0), Part("class_twins", strategy=lambda t: S.class_twin_spec().map(lambda s_: {"model": s_, "points": None}), check=check_prop, quick=(1, 300), thorough=(2, 3000)), Part("by_reference", strategy=lambda t: S.by_reference_spec().map(lambda s_: {"model": s_, "points": None}), check=check_prop, quick=(1, 200), thorough=(2, 2000))] + [
        Part("propositions", strategy=lambda t: prop_case(t), check=check_prop, quick=(5, 300), thorough=(10, 2000)),
        Part("configs", strategy=lambda t: config_case(t), check=check_config, quick=(3, 500), thorough=(6, 3000)),
    ]
