"""C15 - Solver bridge: objectives, solutions and ids stay aligned."""
from hypothesis import strategies as st

from vf import build, oracle, snapshot, solvers, strategies as S
from vf.core import Part, Violation, call
from vf.props import common

PROPERTY = "C15"
RULE = ("In 'select' a third of the cases repeat the request on the configured polyhedron after to_b64/from_b64 and compare what the solver is handed. Part 'solve': Hypothesis generates validated models (explicit and generated ids, integer leaves, <=14 columns) x 1-3 "
        "objective dictionaries (distinct non-zero weights per id, zero weights, unknown ids, weights on auxiliary ids) x "
        "include_virtual_variables x solver in {marker (answers 100+column index), exact brute force, None-returning}. "
        "Oracle: the polyhedron handed to the solver equals to_ge_polyhedron(active=True); objective k has at column j exactly "
        "the weight of variables[j].id (0 if absent); results map every column id to the marker value, omitting columns whose "
        "node has a generated id unless include_virtual_variables; None => {}; with the exact solver the reported dictionary, "
        "read back by id, is a feasible point whose value under the REQUESTED weights equals the enumerated optimum and, for "
        "solver-safe models, its leaf part satisfies the model (reference evaluator). Part 'select': configurator specs x "
        "priority dicts x {marker, exact, None, raising} x only_leafs, through StingyConfigurator.select and "
        "ge_polyhedron_config.select: polyhedron handed == ge_polyhedron, every column id mapped to its marker value, "
        "only_leafs keeps exactly the plain variable items as bare dicts, None => {}, a raising solver surfaces as "
        "InfeasibleError. Non-trivial = model with >=1 generated-id compound and an objective with >=2 distinct non-zero "
        "weights (solve) / configurator with >=1 auxiliary column and >=1 priority (select); distinct = SHA-1 of the case JSON.")
ASSUMPTIONS = ["objective dictionaries are keyed by id strings", "the compressed priority weights themselves are judged by C14, not here"]


@st.composite
def solve_case(draw, tier):
    spec = draw(S.model_spec(depth=2 if tier == "quick" else 3, max_bool=4, max_int=2, profile="small",
                             kinds=draw(st.sampled_from([S.ALL_KINDS, ("All", "Any", "AtMost", "Xor", "Imply", "AtLeast")]))))
    ids = sorted(oracle.spec_leaves(spec)) + ["N1", "N2", "N3", "zz"]
    objs = []
    for _ in range(draw(st.integers(1, 3))):
        d = draw(st.dictionaries(st.sampled_from(ids), st.integers(-4, 6), max_size=5))
        objs.append([list(kv) for kv in sorted(d.items())])
    return {"model": spec, "objs": objs, "virtual": draw(st.booleans()), "solver": draw(st.sampled_from(["marker", "exact", "exact", "none"]))}


def check_solve(case, ev):
    import numpy as np
    spec = case["model"]
    m = common.build_valid(case, ev)
    if m is None:
        return
    lv = oracle.leaves(m)
    comps = oracle.compounds(m)
    if any(i in lv for i in comps):
        ev.count("discarded_by_reference_atom")
        return
    ref_poly = call(m.to_ge_polyhedron, True, what="to_ge_polyhedron")
    cols = list(ref_poly.variables[1:])
    ids = [v.id for v in cols]
    if len(ids) > 14:
        ev.count("skipped_more_than_14_columns")
        return
    objs = [dict((k, v) for k, v in o) for o in case["objs"]]
    log = []
    sname = case["solver"]
    solver = {"marker": solvers.marker(log), "exact": solvers.exact(log, 40000), "none": solvers.none_solver}[sname]
    if not case["virtual"] and len(str(case["objs"])) % 2 == 0:
        # "omitting auto-generated helper variables UNLESS ASKED FOR": nothing is asked for when the argument is left out
        res = list(call(m.solve, [dict(o) for o in objs], solver=solver, what="solve (include_virtual_variables left at its default)"))
        ev.count("virtual_flag_left_at_default")
    else:
        res = list(call(m.solve, [dict(o) for o in objs], solver=solver, include_virtual_variables=case["virtual"], what="solve"))
    if len(res) != len(objs):
        raise Violation(f"solve returned {len(res)} results for {len(objs)} objectives")
    generated = {x.id for x in comps.values() if x.generated_id}
    visible = [i for i in ids if case["virtual"] or i not in generated]
    if sname == "none":
        for conf, ov, sc in res:
            if conf != {}:
                raise Violation(f"None solution reported as {conf}, expected {{}}")
    else:
        if len(log) != 1:
            raise Violation(f"solver called {len(log)} times")
        if snapshot.array(log[0]["poly"]) != snapshot.array(ref_poly):
            raise Violation("polyhedron handed to the solver differs from to_ge_polyhedron(active=True)")
        if len(log[0]["objectives"]) != len(objs):
            raise Violation(f"{len(log[0]['objectives'])} objective vectors for {len(objs)} objective dictionaries")
        for o, vec in zip(objs, log[0]["objectives"]):
            want = [o.get(i, 0) for i in ids]
            if [int(v) for v in vec] != want:
                raise Violation(f"objective vector {dict(zip(ids, vec))} does not carry the requested weights {o} by column id")
        feas = log[0].get("feasible")
        for k, (conf, ov, sc) in enumerate(res):
            if sname == "marker":
                want = {i: 100 + ids.index(i) for i in visible}
                got = {i: int(v) for i, v in conf.items()}
                if got != want:
                    raise Violation(f"solution dictionary {got} does not map column ids to the solver's values {want} "
                                    f"(include_virtual_variables={case['virtual']}, generated ids: {sorted(generated)})")
                if ov != 7 or sc != 5:
                    raise Violation(f"objective value / status code not passed through: {(ov, sc)}")
            else:
                if not feas:
                    if conf != {}:
                        raise Violation(f"infeasible model but solution {conf} reported")
                    continue
                if set(conf) != set(visible):
                    raise Violation(f"solution reports ids {sorted(conf)} , expected {sorted(visible)}")
                # complete hidden (generated-id) columns: search a feasible point agreeing with the reported part
                part = {i: int(v) for i, v in conf.items()}
                cands = [p for p in feas if all(p[ids.index(i)] == v for i, v in part.items())]
                if not cands:
                    raise Violation(f"reported solution {part} is not (part of) a feasible point of the polyhedron")
                best = max(solvers.objective_value([objs[k].get(i, 0) for i in ids], p) for p in feas)
                val = max(solvers.objective_value([objs[k].get(i, 0) for i in ids], p) for p in cands)
                if val != best:
                    raise Violation(f"reported solution {part} has value {val} under the requested weights {objs[k]}, optimum is {best}")
                if oracle.solver_safe(m):
                    env = {i: part[i] for i in lv}
                    if oracle.obj_value(m, env) != 1:
                        raise Violation(f"solver-safe model: reported optimal solution {part} does not satisfy the model")
    distinct_w = max(len({v for v in o.values() if v != 0 and True}) for o in objs) if objs else 0
    cl = common.model_classes(spec, m) + ["solver:" + sname, "virtual" if case["virtual"] else "no_virtual"]
    if generated & set(ids):
        cl.append("generated_id_column")
    ev.case(case, bool(generated & set(ids)) and distinct_w >= 2, cl)


@st.composite
def select_case(draw, tier):
    spec = draw(S.configurator_spec(max_items=6))
    ids = ["a", "b", "c", "d", "e", "f", "R1", "R2", "zz", "a ", "A"]
    prios = []
    if draw(st.integers(0, 14)) == 0:
        # MANY requests in one call (a batch of customer sessions): 64-130 pairwise different dictionaries in a drawn order
        n = draw(st.sampled_from([64, 65, 66, 100, 130]))
        combos = [[[i1, v1], [i2, v2]] for i1 in ids[:6] for v1 in (1, 2, -1) for i2 in ids[:6] for v2 in (3, -2) if i1 < i2]
        prios = list(draw(st.permutations(combos)))[:n]
    else:
        for _ in range(draw(st.integers(1, 3))):
            d = draw(st.dictionaries(st.sampled_from(ids), st.sampled_from([1, 2, 3, -1, -2]), max_size=4))
            prios.append([list(kv) for kv in sorted(d.items())])
    return {"model": spec, "prios": prios, "solver": draw(st.sampled_from(["marker", "marker", "marker", "exact", "exact", "exact", "none", "raising"])),
            "only_leafs": draw(st.integers(0, 2)) > 0, "direct": draw(st.integers(0, 3)) == 0,
            "restored": draw(st.integers(0, 2)) == 0}


def check_select(case, ev):
    import puan
    import puan.ndarray as pnd
    spec = case["model"]
    c = common.build_valid(case, ev)
    if c is None:
        return
    build.clear_caches()
    poly = call(lambda: c.ge_polyhedron, what="ge_polyhedron")
    cols = list(poly.variables[1:])
    ids = [v.id for v in cols]
    leaf_ids = [v.id for v in cols if type(v) is puan.variable]
    prios = [dict((k, v) for k, v in pr) for pr in case["prios"]]
    log = []
    sname = case["solver"]
    solver = {"marker": solvers.marker(log), "exact": solvers.exact(log, 40000), "none": solvers.none_solver,
              "raising": solvers.raising}[sname]
    direct = case["direct"]
    only_leafs = case["only_leafs"] and not direct
    if sname == "raising":
        try:
            r = (poly.select(*prios, solver=solver) if direct else c.select(*prios, solver=solver, only_leafs=only_leafs))
            list(r)
        except pnd.InfeasibleError:
            ev.case(case, False, ["solver:raising"])
            return
        except Exception as e:
            raise Violation(f"solver exception surfaced as {type(e).__name__}, expected InfeasibleError")
        raise Violation("solver exception was swallowed by select()")
    if direct:
        res = list(call(poly.select, *prios, solver=solver, what="ge_polyhedron_config.select"))
    else:
        res = list(call(c.select, *prios, solver=solver, only_leafs=only_leafs, what="select"))
    if len(res) != len(prios):
        raise Violation(f"select returned {len(res)} results for {len(prios)} priority dictionaries")
    if sname != "none":
        if len(log) != 1:
            raise Violation(f"solver called {len(log)} times")
        if snapshot.array(log[0]["poly"]) != snapshot.array(poly):
            raise Violation("polyhedron handed to the solver differs from the configurator's ge_polyhedron")
        # ... and that polyhedron is the model's ASSERTED one (top node required to hold), columns by id
        import numpy as np
        asserted = call(c.to_ge_polyhedron, True, what="to_ge_polyhedron(active=True)")
        if np.asarray(asserted).tolist() != np.asarray(log[0]["poly"]).tolist() or [v.id for v in asserted.variables] != [v.id for v in log[0]["poly"].variables]:
            raise Violation("the solver did not receive the model's asserted polyhedron (to_ge_polyhedron(active=True)): "
                            f"{np.asarray(log[0]['poly']).tolist()} vs {np.asarray(asserted).tolist()}")
        if len(log[0]["objectives"]) != len(prios) or any(len(o) != len(ids) for o in log[0]["objectives"]):
            raise Violation("objective vectors do not match the number of priority dictionaries / columns")
        # user-prioritised columns must carry a weight of the right sign and dominate non-prioritised ones
        for pr, vec in zip(prios, log[0]["objectives"]):
            for i, w in zip(ids, vec):
                p = pr.get(i, 0)
                if p and (w > 0) != (p > 0):
                    raise Violation(f"priority {i!r}={p} got objective weight {w} (wrong sign or column); objective={dict(zip(ids, vec))}")
                if not p and w > 0:
                    raise Violation(f"column {i!r} without priority got positive weight {w}; priorities={pr}")
        if case.get("restored") and sname == "marker":
            # the same request against the configured polyhedron after it was stored and loaded again (to_b64 / from_b64):
            # the solver is handed the same system and the same objective vectors
            log2 = []
            poly2 = call(lambda: pnd.ge_polyhedron_config.from_b64(poly.to_b64()), what="ge_polyhedron_config b64 round trip")
            list(call(poly2.select, *prios, solver=solvers.marker(log2), what="select on the restored polyhedron"))
            if len(log2) != 1 or snapshot.array(log2[0]["poly"]) != snapshot.array(log[0]["poly"]) or \
                    [[int(w_) for w_ in o_] for o_ in log2[0]["objectives"]] != [[int(w_) for w_ in o_] for o_ in log[0]["objectives"]]:
                raise Violation("the stored-and-restored configured polyhedron hands the solver different objectives / system for the same requests: "
                                f"{[list(map(int, o_)) for o_ in log2[0]['objectives']] if log2 else None} vs {[list(map(int, o_)) for o_ in log[0]['objectives']]}")
    feas = log[0].get("feasible") if log else None
    for k, r in enumerate(res):
        conf = r if only_leafs else r[0]
        if sname == "none" or (sname == "exact" and not feas):
            if conf != {}:
                raise Violation(f"None solution reported as {conf}")
            continue
        keep = leaf_ids if only_leafs else ids
        if sname == "marker":
            want = {i: 100 + ids.index(i) for i in keep}
            got = {i: int(v) for i, v in conf.items()}
            if got != want:
                raise Violation(f"select() result {got} does not map column ids to the solver's values {want} (only_leafs={only_leafs})")
            if not only_leafs and (r[1] != 7 or r[2] != 5):
                raise Violation(f"objective value / status code not passed through: {r[1:]}")
        else:
            got = {i: int(v) for i, v in conf.items()}
            if set(got) != set(keep):
                raise Violation(f"select() reports ids {sorted(got)}, expected {sorted(keep)} (only_leafs={only_leafs})")
            vec = [int(v) for v in log[0]["objectives"][k]]
            if not only_leafs and oracle.solver_safe(c):
                lv_ = oracle.leaves(c)
                if all(i in got for i in lv_) and oracle.obj_value(c, {i: got[i] for i in lv_}) != 1:
                    raise Violation(f"with an exact solver the reported solution {got} does not satisfy the (solver-safe) configurator")
            best = max(solvers.objective_value(vec, p) for p in feas)
            cands = [p for p in feas if all(p[ids.index(i)] == v for i, v in got.items())]
            if not cands or max(solvers.objective_value(vec, p) for p in cands) != best:
                raise Violation(f"select() result {got} is not (part of) an optimum of the handed objective")
    aux = [i for i in ids if i not in leaf_ids]
    cl = ["solver:" + sname, "only_leafs" if only_leafs else "all_columns", "direct" if direct else "via_configurator"]
    ev.case(case, bool(aux) and any(pr for pr in prios), cl)


@st.composite
def narrow_config_case(draw, tier):
    """a configured polyhedron built directly (explicit variables, no configurator) and held in a narrow integer type, asked with
    MANY distinct priority levels in one request: the compressed weights (1, 2, 4, ... after the defaults) leave the range
    of int8 / int16 although every matrix entry fits it"""
    ncols = draw(st.integers(6, 12))
    vids = ["v%02d" % j for j in range(ncols)]
    nrows = draw(st.integers(1, 4))
    m = [[draw(st.integers(-2, 1))] + [draw(st.sampled_from([0, 0, 1, -1])) for _ in range(ncols)] for _ in range(nrows)]
    k = draw(st.integers(3, min(ncols, 10)))
    chosen = list(draw(st.permutations(vids)))[:k]
    levels = list(range(1, k + 1))
    if draw(st.booleans()):
        levels[-1] = levels[-2]          # a tie at the top
    pr = [[v, lv * draw(st.sampled_from([1, 1, -1]))] for v, lv in zip(chosen, levels)]
    pr = list(draw(st.permutations(pr)))
    return {"m": m, "vids": vids, "prios": [pr], "dtype": draw(st.sampled_from(["int8", "int8", "int16", "int32", None])),
            "solver": draw(st.sampled_from(["marker", "exact"]))}


def check_narrow_config(case, ev):
    import numpy as np
    import puan
    import puan.ndarray as pnd
    variables = [puan.variable.support_vector_variable()] + [puan.variable(v, (0, 1)) for v in case["vids"]]
    kw = {"dtype": getattr(np, case["dtype"])} if case["dtype"] else {}
    poly = call(pnd.ge_polyhedron_config, case["m"], variables=variables, what="ge_polyhedron_config construction", **kw)
    ids = list(case["vids"])
    prios = [dict((k_, v_) for k_, v_ in pr) for pr in case["prios"]]
    log = []
    solver = solvers.marker(log) if case["solver"] == "marker" else solvers.exact(log, 5000)
    res = list(call(poly.select, *prios, solver=solver, what="ge_polyhedron_config.select"))
    if len(log) != 1 or len(log[0]["objectives"]) != len(prios) or len(res) != len(prios):
        raise Violation("solver not called once with one objective per priority dictionary")
    for pr, vec in zip(prios, log[0]["objectives"]):
        vec = [int(x) for x in vec]
        if len(vec) != len(ids):
            raise Violation(f"objective has {len(vec)} entries for {len(ids)} columns")
        w = dict(zip(ids, vec))
        for i in ids:
            p_ = pr.get(i, 0)
            if p_ and (w[i] > 0) != (p_ > 0) or (p_ and w[i] == 0):
                raise Violation(f"priority {i!r}={p_} got objective weight {w[i]} (matrix dtype {case['dtype']}); objective {w}")
            if not p_ and w[i] > 0:
                raise Violation(f"column {i!r} without priority got positive weight {w[i]}; objective {w}")
        for i in pr:
            for j in pr:
                if abs(pr[i]) > abs(pr[j]) and not abs(w[i]) > abs(w[j]):
                    raise Violation(f"priority |{pr[i]}| on {i!r} does not outweigh |{pr[j]}| on {j!r}: weights {w[i]} vs {w[j]} (matrix dtype {case['dtype']})")
                if abs(pr[i]) == abs(pr[j]) and abs(w[i]) != abs(w[j]):
                    raise Violation(f"equal priorities on {i!r} and {j!r} got different weights {w[i]} vs {w[j]}")
            lower = sum(abs(w[j]) for j in ids if abs(pr.get(j, 0)) < abs(pr[i]))
            if not abs(w[i]) > lower:
                raise Violation(f"weight {w[i]} of {i!r} (priority {pr[i]}) does not dominate the sum {lower} of all lower weights; objective {w}; "
                                f"matrix dtype {case['dtype']}")
    ev.case(case, len(prios[0]) >= 5, ["dtype=" + str(case["dtype"]), "levels>=7" if len({abs(v) for v in prios[0].values()}) >= 7 else "levels<7"])


def parts(tier):
    return [Part("narrow_config", strategy=lambda t: narrow_config_case(t), check=check_narrow_config, quick=(1, 250), thorough=(2, 3000)), 
        Part("solve", strategy=lambda t: solve_case(t), check=check_solve, quick=(5, 400), thorough=(10, 2500)),
        Part("select", strategy=lambda t: select_case(t), check=check_select, quick=(3, 400), thorough=(6, 2500)),
    ]
