"""C07 - Assuming values is equivalent to evaluating with them."""
import itertools

from hypothesis import strategies as st

from vf import build, oracle, strategies as S
from vf.core import Part, Violation, call
from vf.props import common

PROPERTY = "C07"
RULE = ("Part 'compensated': ENUMERATED holders (All, Any, AtLeast, AtMost, Xor, XNor; alone and under a parent) of a sub-proposition and an integer leaf that can make up for it; the sub-proposition assumed 0/1 in every value form, every total interpretation. Also: a leaf named in the assumption that is still part of the assumed model must carry exactly the given bounds (assume() docstring); sub-ranges are biased to the default ranges (0,1) and 16-bit. Hypothesis generates validated model DAG specs x assumption dictionaries D over any subset of leaf ids (int / (v,v) / "
        "sub-range tuple / Bounds) and sub-proposition ids (0/1 as int, tuple or Bounds) x interpretations I of the remaining "
        "leaves (total; sometimes partial). Oracles, all on freshly built objects: (a) metamorphic: "
        "build().assume(D).evaluate(I) == build().evaluate(D u I) as bounds; (b) when D u I is total and constant both equal the "
        "reference arithmetic value with D's sub-proposition entries as overrides; (c) every node that remains in the assumed "
        "model has bounds containing its reference value for every completion consistent with D (enumerated up to 2000 "
        "completions, else corners + drawn points). Non-trivial = D names a sub-proposition id or an interval, and I is "
        "non-empty; distinct = SHA-1 of the canonical case JSON.")
ASSUMPTIONS = ["pre-fixed nodes are not generated here (covered by C03/C06/C08)"]


@st.composite
def case_strategy(draw, tier):
    spec = draw(S.model_spec(depth=3 if tier == "quick" else 4, profile=draw(st.sampled_from(["small", "small", "small", "large", "huge"]))))
    lv = oracle.spec_leaves(spec)
    ids = sorted(lv)
    dl = []      # per leaf: [mode, a, b]; mode 0 = not in D, 1 int, 2 (v,v), 3 sub-range tuple, 4 Bounds sub-range, 5 numpy int
    il = []      # per leaf: interpretation [mode, a, b]; mode 0 = absent
    # which leaves are assumed: small dictionaries (0-3 entries) are as interesting as large ones
    k = draw(st.sampled_from([0, 1, 1, 1, 2, 2, 3, len(ids)]))
    chosen = set(draw(st.lists(st.integers(0, max(0, len(ids) - 1)), min_size=min(k, len(ids)), max_size=min(k, len(ids)), unique=True))) if ids else set()
    for j, i in enumerate(ids):
        lo, hi = lv[i]
        mode = draw(st.sampled_from([1, 1, 2, 3, 4, 5, 6, 7])) if j in chosen else 0
        # values biased to the ends and the mid-point of the declared range (symmetric narrowings keep lower+upper)
        a = draw(st.one_of(st.sampled_from([lo, hi, (lo + hi) // 2, (lo + hi + 1) // 2]), st.integers(lo, hi)))
        b = draw(st.one_of(st.just(min(hi, max(a, lo + hi - a))), st.integers(a, min(hi, a + 4))))
        if mode in (3, 4) and (lo, hi) != (0, 1) and draw(st.integers(0, 3)) == 0:
            # a narrowing that COINCIDES with a default range: (0,1) - what an undeclared variable has - or the 16-bit range
            if lo <= 0 and hi >= 1:
                a, b = 0, 1
            elif lo <= -32768 and hi >= 32767:
                a, b = -32768, 32767
        dl.append([mode, a, b])
        im = draw(st.sampled_from([1, 1, 1, 1, 1, 2, 0, 3]))
        x = draw(st.integers(lo, hi))
        y = draw(st.integers(x, min(hi, x + 2)))
        il.append([im, x, y])
    dc = [list(t) for t in draw(st.lists(st.tuples(st.integers(0, 30), st.integers(0, 1), st.integers(0, 4)), max_size=3))]
    extra = draw(st.lists(st.lists(st.integers(0, 70000), min_size=len(ids), max_size=len(ids)), min_size=6, max_size=12))
    return {"model": spec, "dl": dl, "il": il, "dc": dc, "extra": extra}


@st.composite
def symmetric_case(draw, tier):
    """exactly one integer leaf is assumed, at a value / sub-range that keeps lower+upper of its declared bounds (mid-point
    or symmetric narrowing) - invisible to anything that compares sums or additive hashes of bounds"""
    spec = draw(S.model_spec(depth=2 if tier == "quick" else 3, profile="small", max_bool=2, max_int=3, min_leaves=2))
    lv = oracle.spec_leaves(spec)
    ids = sorted(lv)
    ints = [j for j, i in enumerate(ids) if lv[i][1] - lv[i][0] >= 2]
    target = ints[draw(st.integers(0, len(ints) - 1))] if ints else None
    dl, il = [], []
    for j, i in enumerate(ids):
        lo, hi = lv[i]
        if j == target:
            w = draw(st.integers(0, (hi - lo) // 2))
            a, b = lo + w, hi - w
            if (lo + hi) % 2 == 0 and draw(st.booleans()):
                a = b = (lo + hi) // 2
            mode = (draw(st.sampled_from([1, 2, 5])) if a == b else draw(st.sampled_from([3, 4])))
            dl.append([mode, a, b])
        else:
            dl.append([0, lo, lo])
        il.append([draw(st.sampled_from([1, 1, 1, 2, 0])), draw(st.integers(lo, hi)), hi])
    extra = draw(st.lists(st.lists(st.integers(0, 70000), min_size=len(ids), max_size=len(ids)), min_size=6, max_size=8))
    return {"model": spec, "dl": dl, "il": il, "dc": [], "extra": extra}


@st.composite
def wide_assume_case(draw, tier):
    spec = draw(S.wide_spec())
    lv = oracle.spec_leaves(spec)
    ids = sorted(lv)
    chosen = set(draw(st.lists(st.integers(0, len(ids) - 1), max_size=3, unique=True)))
    dl, il = [], []
    for j, i in enumerate(ids):
        lo, hi = lv[i]
        a = draw(st.sampled_from([lo, hi, hi])) if draw(st.booleans()) else draw(st.integers(lo, hi))
        dl.append([draw(st.sampled_from([1, 2, 3, 4])) if j in chosen else 0, a, draw(st.integers(a, hi))])
        x = draw(st.sampled_from([lo, hi, hi])) if draw(st.booleans()) else draw(st.integers(lo, hi))
        il.append([draw(st.sampled_from([1, 1, 1, 1, 2, 0])), x, hi])
    dc = [list(t_) for t_ in draw(st.lists(st.tuples(st.integers(0, 30), st.integers(0, 1), st.integers(0, 4)), max_size=2))]
    extra = draw(st.lists(st.lists(st.integers(0, 70000), min_size=len(ids), max_size=len(ids)), min_size=6, max_size=8))
    return {"model": spec, "dl": dl, "il": il, "dc": dc, "extra": extra}


@st.composite
def siblings_case(draw, tier):
    """a node with 3-5 compound children (explicit and generated ids, so that settled and open ones interleave in id
    order in every pattern); the assumption settles a subset of those children by id"""
    leaves = [{"k": "leaf", "id": i, "b": [0, 1]} for i in ["a1", "a2", "b1", "b2", "c1", "c2", "d1", "d2", "e1", "e2"]]
    k = draw(st.integers(3, 5))
    kids = []
    for j in range(k):
        ch = leaves[2 * j:2 * j + 2]
        if draw(st.integers(0, 3)) == 0:
            ch = ch + [{"k": "leaf", "id": "t%d" % j, "b": [-1, 2]}]
        kid = {"k": draw(st.sampled_from(["All", "Any", "AtMost", "AtLeast"])), "id": draw(st.sampled_from(["K%d" % j, "K%d" % j, None])), "c": ch}
        if kid["k"] == "AtMost":
            kid["v"] = 1
        if kid["k"] == "AtLeast":
            kid["v"], kid["s"] = draw(st.integers(1, 2)), 1
        kids.append(kid)
    if draw(st.booleans()):
        kids.append(leaves[-1])
    parent_kind = draw(st.sampled_from(["AtLeast", "AtLeast", "All", "Any", "AtMost"]))
    spec = {"k": parent_kind, "id": draw(st.sampled_from(["M", None])), "c": kids}
    if parent_kind == "AtLeast":
        spec["v"], spec["s"] = draw(st.integers(1, len(kids))), draw(st.sampled_from([1, None]))
    elif parent_kind == "AtMost":
        spec["v"] = draw(st.integers(0, len(kids)))
    lv = oracle.spec_leaves(spec)
    ids = sorted(lv)
    dl = [[0, lv[i][0], lv[i][0]] for i in ids]
    il = [[1, draw(st.integers(lv[i][0], lv[i][1])), lv[i][1]] for i in ids]
    dc = [list(t_) for t_ in draw(st.lists(st.tuples(st.integers(0, 30), st.integers(0, 1), st.integers(0, 4)), min_size=1, max_size=3))]
    extra = draw(st.lists(st.lists(st.integers(0, 70000), min_size=len(ids), max_size=len(ids)), min_size=6, max_size=8))
    return {"model": spec, "dl": dl, "il": il, "dc": dc, "extra": extra}


def _val(mode, a, b):
    import numpy as np
    import puan
    if mode == 1:
        return a
    if mode == 2:
        return (a, a)
    if mode == 3:
        return (a, b)
    if mode == 4:
        return puan.Bounds(a, b)
    if mode == 5:
        return np.int64(a)
    # narrow numpy SCALARS only; numpy integers inside tuples / Bounds are outside the documented value forms
    return common.narrow(a, unsigned_ok=(mode == 6))


def _rng(mode, a, b):
    return (a, b) if mode in (3, 4) else (a, a)


@st.composite
def scale_assume_case(draw, tier):
    """LARGE models and LARGE dictionaries: the assumption names 1-2 sub-proposition ids and a few leaves, the interpretation gives
    every other leaf (hundreds of entries)"""
    spec = draw(S.scale_spec())
    lv = oracle.spec_leaves(spec)
    ids = sorted(lv)
    in_d = set(draw(st.lists(st.integers(0, len(ids) - 1), min_size=0, max_size=4, unique=True)))
    bits = draw(st.integers(0, 2 ** 62))
    dens = draw(st.sampled_from([0, 1, 2, 3]))
    dl, il = [], []
    for j, i in enumerate(ids):
        lo, hi = lv[i]
        b1, b2 = (bits >> (j % 62)) & 1, (bits >> ((5 * j + 1) % 62)) & 1
        v = [lo, hi if (b1 and b2) else lo, hi if b1 else lo, hi][dens]
        dl.append([draw(st.sampled_from([1, 2])), v, v] if j in in_d else [0, lo, lo])
        il.append([1, v, hi])
    dc = [list(t_) for t_ in draw(st.lists(st.tuples(st.integers(0, 400), st.integers(0, 1), st.integers(0, 4)), min_size=1, max_size=2))]
    return {"model": spec, "dl": dl, "il": il, "dc": dc, "extra": []}


def big_dicts(tier):
    """ENUMERATED: dictionaries of 250-600 entries. Model A = All(B = Any(x...), C = AtMost(3, y...)); the assumption names B, C or
    A with a constant (in each value form), the interpretation gives EVERY leaf (all zero / all one / a few ones)"""
    for n in (127, 128, 255, 256, 300, 600):
        xs = [{"k": "leaf", "id": "x%03d" % i, "b": [0, 1]} for i in range(n // 2)]
        ys = [{"k": "leaf", "id": "y%03d" % i, "b": [0, 1]} for i in range(n - n // 2)]
        spec = {"k": "All", "id": "A", "c": [{"k": "Any", "id": "B", "c": xs}, {"k": "AtMost", "v": 3, "id": "C", "c": ys}]}
        ids = sorted(l["id"] for l in xs + ys)
        comp_sorted = ["A", "B", "C"]
        for which in (1, 2, 0):                 # index into the sorted compound ids: B, C, A
            for val in (0, 1):
                for form in (0, 1, 2, 3):
                    for pattern in ("zeros", "ones", "few"):
                        ones = set() if pattern == "zeros" else set(ids) if pattern == "ones" else {ids[0], ids[-1], ids[len(ids) // 2]}
                        yield {"model": spec, "dl": [[0, 0, 0] for _ in ids], "il": [[1, 1 if i in ones else 0, 1] for i in ids],
                               "dc": [[which, val, form]], "extra": []}


def check(case, ev):
    import puan
    spec = case["model"]
    m = common.build_valid(case, ev)
    if m is None:
        return
    lv = oracle.leaves(m)
    comps = oracle.compounds(m)
    if any(i in lv for i in comps):
        ev.count("discarded_by_reference_atom")
        return
    ids = sorted(lv)
    cids = sorted(comps)
    D = {}
    box = {}
    overrides = {}
    sids = sorted(oracle.spec_leaves(spec))      # drawn lists are aligned with the spec's leaf ids
    for i, (mode, a, b) in zip(sids, case["dl"]):
        if mode and i in lv:
            D[i] = _val(mode, a, b)
            box[i] = _rng(mode, a, b)
    for k, val, f in case["dc"]:
        cid = cids[k % len(cids)]
        if f >= 3:
            # the sub-proposition id named with its FULL range (0,1) - "nothing known": no override, the node must still be
            # computed from whatever is known about its children, now or in the later interpretation
            D[cid] = (0, 1) if f == 3 else puan.Bounds(0, 1)
            overrides.pop(cid, None)        # a later entry for the same id replaces an earlier one (it is a dictionary)
            continue
        overrides[cid] = val
        D[cid] = val if f == 0 else ((val, val) if f == 1 else puan.Bounds(val, val))
    I = {}
    for i, (mode, a, b) in zip(sids, case["il"]):
        if i in D or mode == 0 or i not in lv:
            continue
        I[i] = a if mode == 1 else ((a, a) if mode == 2 else (a, b))
        box[i] = (a, b) if mode == 3 else (a, a)
    for i in ids:
        box.setdefault(i, lv[i])
    # (a) metamorphic relation, fresh objects on both sides
    assumed = call(build.model(spec).assume, dict(D), what="assume")
    lhs = oracle.bounds_tuple(call(assumed.evaluate, dict(I), what="assumed.evaluate"))
    union = dict(D)
    union.update(I)
    rhs = oracle.bounds_tuple(call(build.model(spec).evaluate, union, what="evaluate(union)"))
    if lhs != rhs:
        raise Violation(f"assume(D).evaluate(I)={lhs} but evaluate(D u I)={rhs}; D={_show(D)} I={_show(I)}")
    # (b) reference value when everything is constant
    obox = [box[i] for i in ids]
    total_const = all(lo == hi for lo, hi in obox)
    if total_const:
        env = {i: box[i][0] for i in ids}
        want = oracle.obj_value(m, env, overrides)
        if lhs != (want, want):
            raise Violation(f"assume(D).evaluate(I)={lhs}, reference value {want}; D={_show(D)} I={_show(I)}")
    # (c) bounds of the remaining nodes contain every value they can take (completions consistent with D only)
    dbox = [box[i] if i in D else lv[i] for i in ids]
    size = oracle.box_size(dbox)
    if size <= 2000:
        pts = list(itertools.product(*[range(lo, hi + 1) for lo, hi in dbox]))
    else:
        pts = list(itertools.islice(itertools.product(*[(lo, hi) if lo != hi else (lo,) for lo, hi in dbox]), 256))
        pts += [tuple(lo + (v % (hi - lo + 1)) for v, (lo, hi) in zip(e + [0] * len(dbox), dbox)) for e in case["extra"]]
    remaining = {}
    for x in oracle.walk(assumed):
        remaining.setdefault(x.id, (int(x.bounds.lower), int(x.bounds.upper)))
    for k in remaining:
        if k not in lv and k not in comps:
            raise Violation(f"assumed model contains unknown id {k!r}")
    # (d) documented: assume() "returns a new proposition with these new bounds set" - a leaf named in D that is still part of
    # the assumed model carries exactly the bounds it was given
    for k in D:
        if k in lv and k in remaining and remaining[k] != (int(box[k][0]), int(box[k][1])):
            raise Violation(f"after assume({_show(D)}) the leaf {k!r} has bounds {remaining[k]}, not the assumed {tuple(box[k])}")
    for p in pts:
        env = dict(zip(ids, p))
        memo = {}
        for k, (l, u) in remaining.items():
            v = env[k] if k in lv else oracle.obj_value(comps[k], env, overrides, memo)
            if not l <= v <= u:
                raise Violation(f"after assume({_show(D)}) node {k!r} has bounds {(l, u)} which exclude its value {v} under {env}")
        # the assumed model evaluated by the reference evaluator on its own structure agrees with the original
        if int(getattr(assumed, "sign", 1)) and not oracle.is_leaf(assumed):
            env2 = dict(env)
            env2.update(overrides)   # assumed sub-propositions are now bare constant variables
            for x in oracle.walk(assumed):
                # a sub-proposition that assume() replaced by a bare variable stands for the constant it carries
                if oracle.is_leaf(x) and x.id not in env2:
                    if x.id in comps and int(x.bounds.lower) == int(x.bounds.upper):
                        env2[x.id] = int(x.bounds.lower)
                    else:
                        raise Violation(f"after assume({_show(D)}) the model contains the free variable {x.id!r} {oracle.bounds_tuple(x.bounds)} which is "
                                        f"{'a sub-proposition of' if x.id in comps else 'unknown to'} the original model")
            if oracle.obj_value(assumed, env2) != oracle.obj_value(m, env, overrides, memo):
                raise Violation(f"assumed model's arithmetic value differs from the original's under {env}; D={_show(D)}")
    ev.count("completions", len(pts))
    has_cmp = bool(overrides)
    has_int = any(mo in (3, 4) for mo, _, _ in case["dl"])
    cl = common.model_classes(spec, m)
    if has_cmp:
        cl.append("D_names_subproposition")
    if has_int:
        cl.append("D_has_interval")
    if total_const:
        cl.append("total_constant")
    if oracle.is_leaf(assumed):
        cl.append("assumed_collapsed_to_variable")
    ev.case(case, (has_cmp or has_int) and bool(I), cl)


def _show(d):
    return {k: (oracle.bounds_tuple(v) if hasattr(v, "lower") else (v if isinstance(v, tuple) else int(v))) for k, v in d.items()}


def symmetric_shapes(slice_i, n):
    """EXHAUSTIVE: every small shape that contains the integer leaf t in (-2,2), with exactly t assumed at its mid-point (as
    int / tuple) or narrowed symmetrically to (-1,1) (tuple / Bounds) - assumptions that keep lower+upper of the declared
    bounds - and every total interpretation of the other leaves"""
    for spec in S.small_shapes(slice_i, n):
        lv = oracle.spec_leaves(spec)
        if "t" not in lv:
            continue
        ids = sorted(lv)
        others = [i for i in ids if i != "t"]
        for mode, a, b in ((1, 0, 0), (2, 0, 0), (3, -1, 1), (4, -1, 1)):
            for vals in itertools.product(*[range(lv[i][0], lv[i][1] + 1) for i in others]):
                env = dict(zip(others, vals))
                yield {"model": spec, "dl": [[mode, a, b] if i == "t" else [0, 0, 0] for i in ids],
                       "il": [[0, 0, 0] if i == "t" else [1, env[i], env[i]] for i in ids], "dc": [], "extra": []}


def compensated(tier):
    """ENUMERATED: a node whose decided sub-proposition does NOT decide the node, because an integer leaf (or several leaves)
    beside it can still make up for it - every connective class as the holder (All, Any, AtLeast, AtMost, Xor, XNor), the
    sub-proposition assumed 0 / 1 in every value form, every total interpretation of the leaves"""
    L = lambda i: {"k": "leaf", "id": i, "b": [0, 1]}
    for tb in ((0, 2), (0, 3), (-1, 3)):
        t = {"k": "leaf", "id": "t", "b": list(tb)}
        for sub in ({"k": "Any", "id": "B", "c": [L("a"), L("b")]}, {"k": "AtMost", "v": 1, "id": "B", "c": [L("a"), L("b")]}):
            holders = [{"k": "All", "id": "A", "c": [sub, t]}, {"k": "All", "id": "A", "c": [sub, t, L("c")]}, {"k": "Any", "id": "A", "c": [sub, t]},
                       {"k": "AtLeast", "v": 2, "s": 1, "id": "A", "c": [sub, t, L("c")]}, {"k": "AtMost", "v": 1, "id": "A", "c": [sub, t]},
                       {"k": "Xor", "id": "A", "c": [sub, t]}, {"k": "XNor", "id": "A", "c": [sub, t]}]
            for h in holders:
                for spec in (h, {"k": "All", "id": "TOP", "c": [h, L("z")]}):
                    lv = oracle.spec_leaves(spec)
                    ids = sorted(lv)
                    m_ = build.model(spec)
                    cids = sorted(oracle.compounds(m_))
                    if "B" not in cids:
                        continue
                    which = cids.index("B")
                    for val in (0, 1):
                        for form in (0, 1, 2):
                            for vals in itertools.product(*[range(lv[i][0], lv[i][1] + 1) for i in ids]):
                                env = dict(zip(ids, vals))
                                yield {"model": spec, "dl": [[0, 0, 0] for _ in ids], "il": [[1, env[i], env[i]] for i in ids],
                                       "dc": [[which, val, form]], "extra": []}


def empty(slice_i, n):
    """groups without sub-propositions inside every connective; nothing / one leaf / the empty group itself is assumed, every
    total interpretation of the rest"""
    for spec in S.empty_shapes(slice_i, n):
        lv = oracle.spec_leaves(spec)
        ids = sorted(lv)
        for who, dc in ((None, []), ("b", []), (None, [[0, 1, 0]]), (None, [[1, 0, 1]]), (None, [[0, 0, 3]]), (None, [[1, 0, 4]])):
            if who is not None and who not in lv:
                continue
            others = [i for i in ids if i != who]
            for vals in itertools.product(*[range(lv[i][0], lv[i][1] + 1) for i in others]):
                env = dict(zip(others, vals))
                yield {"model": spec, "dl": [[2, 1, 1] if i == who else [0, 0, 0] for i in ids],
                       "il": [[0, 0, 0] if i == who else [1, env[i], env[i]] for i in ids], "dc": dc, "extra": []}


def parts(tier):
    return [Part("compensated", enumerate_cases=compensated, check=check, time_quick=150.0), Part("big_dicts", enumerate_cases=big_dicts, check=check, time_quick=200.0), Part("scale", strategy=lambda t: scale_assume_case(t), check=check, quick=(2, 40), thorough=(4, 500)), Part("empty0", enumerate_cases=(lambda t: empty(0, 1)), check=check, time_quick=120.0)] + [Part("symmetric_shapes%d" % i, enumerate_cases=(lambda t, i=i: symmetric_shapes(i, 2)), check=check, time_quick=120.0) for i in range(2)] + [Part("compound_siblings", strategy=lambda t: siblings_case(t), check=check, quick=(2, 250), thorough=(4, 3000))] + [Part("wide_nodes", strategy=lambda t: wide_assume_case(t), check=check, quick=(2, 150), thorough=(4, 2000))] + [Part("assume", strategy=lambda t: case_strategy(t), check=check, quick=(8, 300), thorough=(16, 2500)),
            Part("symmetric", strategy=lambda t: symmetric_case(t), check=check, quick=(3, 300), thorough=(6, 2500))]
