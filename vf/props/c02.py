"""C02 - Integer solutions of the polyhedron are exactly the satisfying configurations."""
import itertools

from hypothesis import strategies as st

from vf import build, oracle, strategies as S
from vf.core import Part, Violation, call
from vf.props import common

PROPERTY = "C02"
RULE = ("Parts 'shapes*': EXHAUSTIVE enumeration of every single threshold node (all values/signs) alone and inside every "
        "connective. Other parts: Hypothesis generates validated model DAG specs (no pre-fixed nodes). Direction => (all models): every enumerated/"
        "sampled satisfying leaf assignment, completed with the reference truth value of every sub-proposition, must be an "
        "in-bounds point of the asserted polyhedron. Direction <= (solver-safe models only): ALL in-bounds integer points of "
        "the asserted polyhedron with auxiliary columns free are enumerated when the column box has <= guard points "
        "(quick 30000 / thorough 250000); for larger boxes candidate points come from scipy MILP (HiGHS) maximising drawn "
        "objectives and are re-verified in exact integer arithmetic; the leaf part of every feasible point must satisfy the "
        "model under the reference evaluator. Non-trivial = solver-safe model with >=1 auxiliary column whose feasible set "
        "is a non-empty strict subset of the box or contains a point whose auxiliary part differs from the evaluated truth "
        "values; distinct = SHA-1 of the canonical case JSON.")
ASSUMPTIONS = ["for column boxes above the guard the <= direction is a search at MILP extreme points, not an enumeration",
               "scipy/HiGHS is only a source of candidate points; each is re-verified exactly before use"]


@st.composite
def negation_case(draw, tier):
    spec = draw(S.negation_focus_spec(int_leaves=False, depth=2 if tier == "quick" else 3))
    return {"model": spec, "points": None, "obj": []}


@st.composite
def boolean_case(draw, tier):
    """boolean leaves, positive connectives and negating connectives only: every such model is solver-safe as written"""
    c = draw(common.model_case(guard=600 if tier == "quick" else 2000, depth=3 if tier == "quick" else 4, profile="small",
                               kinds=("All", "Any", "AtLeast", "AtLeast", "Imply", "Not", "XNor"), max_bool=5, max_int=0,
                               positive_only=True, min_leaves=2))
    c["obj"] = []
    return c


@st.composite
def case_strategy(draw, tier, profile):
    c = draw(common.model_case(guard=600 if tier == "quick" else 2000, n_points=(16, 32),
                               depth=3 if tier == "quick" else 4, profile=profile,
                               kinds=draw(st.sampled_from([("AtLeast", "All", "Any", "Xor", "ExactlyOne", "XNor", "Imply", "Not", "AtMost"),
                                                           ("All", "Any", "Xor", "XNor", "Imply", "Not", "AtMost"),
                                                           ("All", "Any", "Imply", "AtMost", "AtLeast")])),
                               max_bool=4, max_int=2 if profile == "small" else 3))
    c["obj"] = [list(x) for x in draw(st.lists(st.lists(st.integers(-5, 5), min_size=14, max_size=14), min_size=4, max_size=10))]
    return c


def written_solver_safe(spec):
    """The model as WRITTEN is in solver-safe form: boolean leaves only and no negatively signed connective (AtMost,
    AtLeast with negative sign, Xor/ExactlyOne which contain an AtMost) has a compound child. Negating connectives
    (Not, Imply, XNor) are allowed: the statement says negation pushes inwards to re-establish the form."""
    shared = spec.get("shared", []) if "root" in spec else []

    def compound(c):
        return c["k"] != "leaf"
    for n in oracle.spec_nodes(spec):
        k = n["k"]
        if k == "leaf":
            if tuple(n["b"]) != (0, 1):
                return False
            continue
        if k == "ref":
            continue
        if n.get("fix") is not None:
            return False
        neg = k in ("AtMost", "Xor", "ExactlyOne") or (k == "AtLeast" and (n.get("s") == -1 or (n.get("s") is None and n["v"] <= 0)))
        if neg and any(compound(c) for c in n["c"]):
            return False
    return True


def check(case, ev):
    spec = case["model"]
    tier_guard = case.get("guard", 30000)
    m = common.build_valid(case, ev)
    if m is None:
        return
    lv = oracle.leaves(m)
    comps = oracle.compounds(m)
    if any(i in lv for i in comps):
        ev.count("discarded_by_reference_atom")
        return
    pa = call(m.to_ge_polyhedron, True, what="to_ge_polyhedron(active=True)")
    cols, rws = oracle.rows(pa)
    ids = [c.id for c in cols]
    if set(ids) != (set(lv) | set(comps)) - {m.id} or len(ids) != len(set(ids)):
        raise Violation(f"polyhedron columns {ids} do not match model ids")
    colb = [(int(c.bounds.lower), int(c.bounds.upper)) for c in cols]
    cl = common.model_classes(spec, m)
    # ---- direction => ------------------------------------------------------------------------------
    n_sat = 0
    n_all = 0
    kept = []
    # "the model" is what the user wrote: for specs over boolean leaves without pre-fixed parts the built object's
    # arithmetic value is cross-checked against the textbook truth value of the written formula (a negation that was
    # pushed inwards wrongly yields a built model that agrees with its own polyhedron but not with the formula)
    _nodes = oracle.spec_nodes(spec)
    # (integer leaves are fine - the connectives are arithmetic; only "Imply" read as a disjunction differs from the
    #  arithmetic reading when a consequence can be negative, so such specs are left to the structural evaluator)
    spec_boolean = all(n.get("fix") is None for n in _nodes) and all(i in oracle.spec_leaves(spec) for i in lv) \
        and (all(n["k"] != "leaf" or n["b"][0] >= 0 for n in _nodes) or not any(n["k"] == "Imply" for n in _nodes)) \
        and max([abs(v) for n in _nodes if n["k"] == "leaf" for v in n["b"]] + [0]) <= 10 ** 6
    _spec_lv = oracle.spec_leaves(spec)
    _missing = sorted(i_ for i_ in _spec_lv if i_ not in lv)
    if len(_missing) > 4:
        spec_boolean = False
    for env in common.assignments(case, lv):
        n_all += 1
        memo = {}
        built_value = oracle.obj_value(m, env, memo=memo)
        if spec_boolean and n_all <= 64:
            # leaves of the written formula that the built object does not have at all are given each of their two bounds
            for extra in (itertools.product(*[[(i_, b_) for b_ in sorted(set(_spec_lv[i_]))] for i_ in _missing]) if _missing else [()]):
                env_w = dict(env, **dict(extra))
                want = oracle.spec_value(spec, env_w)
                if built_value != want:
                    break
            if built_value != want:
                env = env_w
                raise Violation(f"the built model evaluates to {built_value} on {env} but the written formula is {'true' if want else 'false'} there "
                                f"(negation pushed inwards must keep the meaning)")
        if built_value != 1:
            continue
        n_sat += 1
        full = dict(env)
        for cid, node in comps.items():
            full[cid] = oracle.obj_value(node, env, memo=memo)
        x = [full[i] for i in ids]
        for v, (lo, hi), i in zip(x, colb, ids):
            if not lo <= v <= hi:
                raise Violation(f"satisfying assignment {env}: column {i!r} value {v} outside column bounds {(lo, hi)}")
        if not oracle.all_rows_hold(rws, x):
            raise Violation(f"valid configuration lost: {env} satisfies the model but its completion {full} violates the polyhedron")
        if case.get("near_miss") and len(kept) < 6:
            kept.append((dict(env), dict(full)))
    ev.count("satisfying_assignments", n_sat)
    if spec_boolean:
        ev.count("written_formula_cross_checked")
    # ---- direction <= ------------------------------------------------------------------------------
    built_safe = oracle.solver_safe(m)
    safe = built_safe or written_solver_safe(spec)
    if safe and not built_safe:
        cl.append("written_safe_but_built_unsafe")
    nontrivial = False
    if not safe:
        ev.count("not_solver_safe_skipped_converse")
    else:
        aux_idx = [j for j, i in enumerate(ids) if i in comps]
        size = oracle.box_size(colb)
        guard = 30000 if case.get("tier", "quick") == "quick" else 250000
        if case.get("near_miss"):
            # LARGE models: neither enumerable nor a sensible MILP instance. Candidate points are NEAR MISSES of feasible points:
            # a satisfying assignment with its evaluated auxiliary values, in which one leaf - or all direct leaves of one
            # sub-proposition - are moved to their other bound while the auxiliary values stay. Each is an in-bounds integer
            # point; if its leaf part makes the model false it must violate some row.
            feas = []
            strict = False
            n_nm = 0
            nodes = sorted(comps.items(), key=lambda kv: str(kv[0]))
            for env, full in kept:
                muts = []
                for cid, node in nodes[:: max(1, len(nodes) // 80)]:
                    leaves_c = [c.id for c in node.propositions if oracle.is_leaf(c) and c.id in env]
                    if leaves_c:
                        muts.append(leaves_c)
                lids = sorted(env)
                for lid in lids[:: max(1, len(lids) // 40)]:
                    muts.append([lid])
                for group in muts:
                    env2 = dict(env)
                    for lid in group:
                        lo, hi = lv[lid]
                        env2[lid] = lo if env2[lid] != lo else hi
                    if oracle.obj_value(m, env2) == 1:
                        continue
                    n_nm += 1
                    full2 = dict(full)
                    full2.update(env2)
                    if oracle.all_rows_hold(rws, [full2[i] for i in ids]):
                        raise Violation(f"solver-safe model: the in-bounds integer point obtained from a feasible point by moving {group} to the "
                                        f"other bound (auxiliary values kept) satisfies the polyhedron although its leaf part makes the model false")
            ev.count("near_miss_points", n_nm)
            cl.append("converse_near_misses")
            if n_nm:
                cl.append("near_miss_judged")
        elif size <= guard:
            pts = list(itertools.product(*[range(lo, hi + 1) for lo, hi in colb]))
            mask = oracle.feasible_mask(rws, pts)
            feas = [p for p, ok in zip(pts, mask) if ok]
            cl.append("converse_enumerated")
            ev.count("points_enumerated", len(pts))
            strict = 0 < len(feas) < len(pts)
        elif max(abs(v) for lo_hi in colb for v in lo_hi) > 10 ** 6:
            # 32-bit ranges: neither enumerable nor a sensible MILP instance (big-M ~ 1e9); only the => direction is judged
            feas = []
            strict = False
            cl.append("converse_skipped_huge_box")
        else:
            objs = []
            for o in case["obj"]:
                objs.append([o[j % len(o)] for j in range(len(ids))])
            for j in range(min(len(ids), 6)):
                e = [0] * len(ids)
                e[j] = 1
                objs.append(e)
                objs.append([-v for v in e])
            cand = oracle.milp_points(rws, colb, objs)
            feas = []
            for p in set(cand):
                if all(lo <= v <= hi for v, (lo, hi) in zip(p, colb)) and oracle.all_rows_hold(rws, p):
                    feas.append(p)
                else:
                    ev.count("milp_points_rejected_by_exact_recheck")
            cl.append("converse_milp_sampled")
            ev.count("points_milp", len(feas))
            strict = False
        ev.count("feasible_points", len(feas))
        slack = False
        for p in feas:
            full = dict(zip(ids, p))
            env = {i: full[i] for i in lv}
            memo = {}
            if oracle.obj_value(m, env, memo=memo) != 1:
                raise Violation(f"solver-safe model ({'as built' if built_safe else 'as written; negation did not re-establish the form'}): "
                                f"feasible polyhedron point {full} has a leaf part {env} that does not satisfy the model")
            if not slack and aux_idx:
                if any(full[cid] != oracle.obj_value(node, env, memo=memo) for cid, node in comps.items() if cid in full):
                    slack = True
        nontrivial = bool(aux_idx) and ((len(feas) > 0 and (strict or slack)) or "near_miss_judged" in cl)
        if slack:
            cl.append("aux_slack_point")
        if not feas:
            cl.append("infeasible")
    ev.case(case, nontrivial, cl)


def _with_tier(strategy, tier):
    return strategy.map(lambda c: dict(c, tier=tier))


def shapes(slice_i, n):
    for spec in S.small_shapes(slice_i, n):
        yield {"model": spec, "points": None, "obj": [], "tier": "quick"}


def mixed(slice_i, n):
    from vf import strategies as S_
    for spec in S_.mixed_shapes(slice_i, n):
        yield {"model": spec, "points": None, "obj": [], "tier": "quick"}


def empty(slice_i, n):
    """groups without sub-propositions, alone and inside every connective"""
    from vf import strategies as S_
    for spec in S_.empty_shapes(slice_i, n):
        yield {"model": spec, "points": None, "obj": []}

def parts(tier):
    return [Part("bigm32", enumerate_cases=(lambda t: (dict(c_, obj=[[1] * 8, [-1, 2, -3, 4, -5, 6, -7, 8]], tier=t) for c_ in S.bigm32_cases())), check=check, time_quick=100.0), Part("scale", strategy=lambda t: S.scale_case(booleans_only=True).map(lambda c: dict(c, obj=[], near_miss=True)), check=check, quick=(2, 30), thorough=(4, 400)), Part("concat_names", enumerate_cases=(lambda t: ({"model": {"k": "Not", "c": [s_]}, "points": None, "obj": []} for s_ in __import__("vf.strategies", fromlist=["x"]).concat_shapes())), check=check, time_quick=150.0), Part("empty0", enumerate_cases=(lambda t: empty(0, 1)), check=check, time_quick=120.0), Part("class_twins", strategy=lambda t: S.class_twin_spec().map(lambda s_: {"model": s_, "points": None, "obj": [], "tier": t}), check=check, quick=(1, 300), thorough=(2, 3000))] + [Part("bounding%d" % i, enumerate_cases=(lambda t, i=i: ({"model": s_, "points": None, "obj": [], "tier": "quick"} for s_ in S.bounding_shapes(i, 2))), check=check, time_quick=120.0) for i in range(2)] + [Part("mixed%d" % i, enumerate_cases=(lambda t, i=i: mixed(i, 8)), check=check, time_quick=150.0) for i in range(8)] + [Part("shapes%d" % i, enumerate_cases=(lambda t, i=i: shapes(i, 4)), check=check, time_quick=120.0) for i in range(4)] + [
        Part("small", strategy=lambda t: _with_tier(case_strategy(t, "small"), t), check=check, quick=(6, 200), thorough=(12, 1500)),
        Part("large", strategy=lambda t: _with_tier(case_strategy(t, "large"), t), check=check, quick=(2, 80), thorough=(4, 500)),
        Part("huge", strategy=lambda t: _with_tier(case_strategy(t, "huge"), t), check=check, quick=(1, 80), thorough=(2, 500)),
        Part("negated_thresholds", strategy=lambda t: _with_tier(negation_case(t), t), check=check, quick=(2, 300), thorough=(4, 2500)),
        Part("boolean_negations", strategy=lambda t: _with_tier(boolean_case(t), t), check=check, quick=(4, 200), thorough=(8, 2000)),
    ]
