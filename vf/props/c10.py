"""C10 - Validation accepts exactly the well-defined models."""
import copy

from hypothesis import strategies as st

from vf import build, oracle, strategies as S
from vf.core import Part, Violation, call
from vf.props import common

PROPERTY = "C10"
RULE = ("Parts 'lookalike_trees' (ENUMERATED trees whose ids differ only in blanks / case / tab / unicode composition: must be accepted; expected verdict taken from the spec) and 'confusable_bounds' (ENUMERATED: one id with two easily confused bounds - equal sums, equal up to 16 / 32 bits, boolean vs wide - in siblings, at different depths, below a negation: must be rejected). Part 'adversarial': Hypothesis generates models whose leaf AND sub-proposition ids come from one tiny alphabet "
        "('a','b','ab','bc','abc','a1','1','A','B','') so reuse is the norm; leaf bounds from easily confused families (equal "
        "sums (0,3)/(1,2), (0,0)/(-1,1); equal hash(lo)+hash(hi) under hash(-1)==-2; shifted/swapped pairs); compounds that "
        "reuse an explicit id with different sign/value/children; generated-id coincidences (Any('ab','c') vs Any('a','bc')); "
        "self/mutual references; the same child twice; by-reference atoms; identical shared sub-propositions; copies of a sub-proposition that agree at their top but differ further down. Assertion: "
        "errors()==[] implies the independent predicate well_defined (acyclic id graph, no child listed twice, single "
        "definition per id). Part 'tree': trees with pairwise distinct ids must be accepted. Part 'sharing': models built by "
        "the constructive generator (consistent leaf pool, unique explicit ids, shared sub-propositions by reference) that "
        "are well_defined must be accepted. Nothing is asserted about which error codes are returned. Non-trivial = some id "
        "occurs on >=2 nodes of the built graph; distinct = SHA-1 of the canonical case JSON.")
ASSUMPTIONS = ["true 64-bit hash collisions between different ids are not reachable by generation",
               "a leaf whose id equals a sub-proposition's id with the same bounds is the documented by-reference idiom (valid)"]

IDS = ["a", "b", "ab", "bc", "abc", "a1", "1", "A", "B", ""]
BOUNDS = [(0, 1), (0, 1), (0, 1), (0, 3), (1, 2), (0, 0), (-1, 1), (-1, 2), (-2, 3), (-1, 3), (0, 4), (1, 1), (0, 2), (2, 1 + 1),
          (-2, 2), (1, 3), (-1, 0),
          # bounds that differ only BEYOND the 16-bit default range of integer variables (stock levels, capacities, big-M)
          (0, 40000), (0, 50000), (0, 32767), (0, 32768), (-32768, 32767), (-100000, 32767)]
KINDS = ["AtLeast", "AtLeast", "All", "Any", "AtMost", "Xor", "Imply", "XNor", "Not"]


def _adv_node(draw, depth, made):
    kind = draw(st.sampled_from(KINDS))
    n = 1 if kind == "Not" else (2 if kind == "Imply" else draw(st.sampled_from([1, 2, 2, 3, 3, 4])))
    children = []
    for _ in range(n):
        r = draw(st.integers(0, 11))
        if r <= 5 or depth == 0:
            lid = draw(st.sampled_from(IDS))
            b = list(draw(st.sampled_from(BOUNDS)))
            children.append({"k": "leaf", "id": lid, "b": b})
        elif r <= 8:
            children.append(_adv_node(draw, depth - 1, made))
        elif r == 9 and made:
            c = draw(st.sampled_from(made))
            if draw(st.booleans()):
                # a copy that looks the same at its top (same id, sign, value, child ids) but is defined differently
                # further down: one descendant leaf gets other bounds, or one descendant node another child
                c = copy.deepcopy(c)
                below = [n for ch in c.get("c", []) for n in oracle.spec_nodes(ch)]
                if below:
                    t = below[draw(st.integers(0, len(below) - 1))]
                    if t["k"] == "leaf":
                        t["b"] = list(draw(st.sampled_from(BOUNDS)))
                    elif t.get("c"):
                        t["c"] = t["c"][:-1] + [{"k": "leaf", "id": draw(st.sampled_from(IDS)), "b": [0, 1]}]
            children.append(c)          # (mutated) copy of an earlier sub-proposition
        elif r == 10 and children:
            children.append(children[draw(st.integers(0, len(children) - 1))])   # same child twice
        else:
            children.append(_adv_node(draw, depth - 1, made))
    if kind == "Not":
        node = {"k": "Not", "c": children}
    else:
        node = {"k": kind, "c": children, "id": draw(st.sampled_from(IDS + [None, None, None, None]))}
        if node["id"] is not None and draw(st.integers(0, 9)) == 0:
            node["fix"] = draw(st.integers(0, 1))
        if kind == "AtLeast":
            node["v"] = draw(st.sampled_from([1, 1, 2, 11, 0, -1, -2]))
            node["s"] = draw(st.sampled_from([1, -1, None]))
        elif kind == "AtMost":
            node["v"] = draw(st.integers(0, 2))
    made.append(node)
    return node


@st.composite
def adversarial(draw, tier):
    made = []
    if draw(st.integers(0, 7)) == 0:
        return {"model": _ring(draw)}
    return {"model": _adv_node(draw, draw(st.integers(1, 3)), made)}


def _ring(draw):
    """rules that refer to each other by id through plain (0,1) variables, sitting in DIFFERENT branches: A -> B -> A or a
    longer ring, possibly left open (then the model is a legal by-reference model), everything else clean"""
    k = draw(st.integers(2, 4))
    names = list(draw(st.permutations(["A", "B", "ab", "bc", "R9", "zz"])))[:k]
    closed = draw(st.integers(0, 3)) > 0
    other = ["x", "y", "z", "w"]
    rules = []
    for j, nme in enumerate(names):
        nxt = names[(j + 1) % k]
        ch = [{"k": "leaf", "id": other[j], "b": [0, 1]}]
        if closed or j < k - 1:
            ch.append({"k": "leaf", "id": nxt, "b": [0, 1]})
        node = {"k": draw(st.sampled_from(["All", "Any", "AtLeast"])), "id": nme, "c": ch}
        if node["k"] == "AtLeast":
            node["v"], node["s"] = 1, None
        if draw(st.integers(0, 3)) == 0:
            node["fix"] = draw(st.integers(0, 1))      # a rule whose own variable is pre-fixed still defines its id
        rules.append(node)
    # spread over branches: some rules wrapped one level deeper
    kids = []
    for j, r in enumerate(rules):
        if draw(st.booleans()):
            kids.append({"k": draw(st.sampled_from(["Any", "All"])), "id": draw(st.sampled_from([None, "W%d" % j])), "c": [r, {"k": "leaf", "id": "u%d" % j, "b": [0, 1]}]})
        else:
            kids.append(r)
    return {"k": "All", "id": draw(st.sampled_from(["Top", None])), "c": list(draw(st.permutations(kids)))}


def _leaf(i, b=(0, 1)):
    return {"k": "leaf", "id": i, "b": list(b)}


@st.composite
def coincidence(draw, tier):
    """two DIFFERENT sub-propositions that get the same id, in different branches of an otherwise clean model: generated ids
    that coincide because the id digest is taken over the concatenated child ids + value + sign (Any('ab','c') / Any('a','bc');
    AtLeast(1,['a1']) / AtLeast(11,['a'])), or an explicit id that equals another sub-proposition's generated id. Also the
    harmless variant (the same definition written twice), which must be accepted."""
    fam = draw(st.integers(0, 5))
    kind = draw(st.sampled_from(["Any", "All", "AtLeast"]))

    def thr(children, v=None):
        n = {"k": kind, "id": None, "c": children}
        if kind == "AtLeast":
            n["v"], n["s"] = (v if v is not None else 1), draw(st.sampled_from([1, None]))
        return n
    if fam == 0:
        splits = draw(st.sampled_from([(["ab", "c"], ["a", "bc"]), (["a", "b", "c"], ["ab", "c"]), (["abc"], ["a", "bc"]), (["x", "yz"], ["xy", "z"]),
                                       (["a", "b", "c"], ["a", "bc"])]))
        x1, x2 = thr([_leaf(i) for i in splits[0]]), thr([_leaf(i) for i in splits[1]])
        if kind == "All":       # All has value = number of children: keep the digests equal by using AtLeast with one value
            v = draw(st.integers(1, 2))
            x1 = {"k": "AtLeast", "v": v, "s": 1, "id": None, "c": x1["c"]}
            x2 = {"k": "AtLeast", "v": v, "s": 1, "id": None, "c": x2["c"]}
    elif fam == 1:
        base = draw(st.sampled_from(["a", "x", "it"]))
        d = draw(st.sampled_from([1, 2]))
        x1 = {"k": "AtLeast", "v": d, "s": 1, "id": None, "c": [_leaf(base + "1")]}
        x2 = {"k": "AtLeast", "v": 10 + d, "s": 1, "id": None, "c": [_leaf(base)]}
    elif fam == 2:
        x1 = thr([_leaf("x"), _leaf("y")])
        x2 = {"k": draw(st.sampled_from(["All", "Any", "AtMost"])), "id": {"gen_of": x1}, "c": [_leaf("p"), _leaf("q")]}
        if x2["k"] == "AtMost":
            x2["v"] = 1
    elif fam == 3:
        # same children, same generated digest impossible with another value -> use an explicit id on both, other value/sign
        x1 = {"k": "All", "id": "C", "c": [_leaf("a"), _leaf("b")]}
        x2 = {"k": draw(st.sampled_from(["Any", "AtMost", "Xor"])), "id": "C", "c": [_leaf("a"), _leaf("b")]}
        if x2["k"] == "AtMost":
            x2["v"] = draw(st.integers(0, 2))
    elif fam == 5:
        # an explicit id re-used for two rules that look the same on their own level (same sign, value, child ids) while a
        # same-named rule BELOW them is defined differently
        k_in = draw(st.sampled_from(["Any", "All"]))
        k_out = draw(st.sampled_from(["All", "Any"]))
        d1 = {"k": k_in, "id": "D", "c": [_leaf("a"), _leaf("b")]}
        d2 = draw(st.sampled_from([{"k": k_in, "id": "D", "c": [_leaf("c"), _leaf("d")]},
                                   {"k": "Any" if k_in == "All" else "All", "id": "D", "c": [_leaf("a"), _leaf("b")]},
                                   {"k": k_in, "id": "D", "c": [_leaf("a"), _leaf("b"), _leaf("c")]}]))
        extra = [_leaf("e")] if draw(st.booleans()) else []
        x1 = {"k": k_out, "id": "P", "c": [d1] + extra}
        x2 = {"k": k_out, "id": "P", "c": [d2] + extra}
    else:
        x1 = thr([_leaf("a"), _leaf("bc")], v=draw(st.integers(1, 2)))
        x2 = copy.deepcopy(x1)          # the harmless variant: one definition written twice
    wraps = []
    for j, x in enumerate((x1, x2)):
        w = draw(st.integers(0, 3))
        if w == 0:
            wraps.append(x)
        elif w == 1:
            wraps.append({"k": draw(st.sampled_from(["Any", "All"])), "id": draw(st.sampled_from([None, "W%d" % j])), "c": [x, _leaf("u%d" % j)]})
        elif w == 2:
            wraps.append({"k": "Imply", "id": None, "c": [_leaf("u%d" % j), x]})
        else:
            wraps.append({"k": "Any", "id": "W%d" % j, "c": [{"k": "All", "id": None, "c": [x, _leaf("v%d" % j)]}, _leaf("u%d" % j)]})
    kids = wraps + ([_leaf("t", (-1, 2))] if draw(st.booleans()) else [])
    return {"model": {"k": draw(st.sampled_from(["All", "Any"])), "id": draw(st.sampled_from(["Top", None])), "c": list(draw(st.permutations(kids)))},
            "twice": fam not in (0, 1, 2, 3, 5)}


@st.composite
def same_object(draw, tier):
    """ONE Python object (a variable or a sub-proposition) listed twice among the children of a node, every other id of the
    model distinct: x = variable('x'); All(x, x) / s = Any('a','b'); All(s, s, 'y') / Any(u, v, u)"""
    if draw(st.booleans()):
        sh = _leaf(draw(st.sampled_from(["x", "t", "ab"])), draw(st.sampled_from([(0, 1), (0, 1), (-1, 2)])))
    else:
        sh = {"k": draw(st.sampled_from(["Any", "All", "AtMost"])), "id": draw(st.sampled_from(["s", None])), "c": [_leaf("a"), _leaf("b")], "v": 1}
        if sh["k"] != "AtMost":
            sh.pop("v")
    ref = {"k": "ref", "i": 0}
    others = [_leaf(i) for i in ["y", "z", "w"][:draw(st.integers(0, 2))]]
    twice = draw(st.integers(0, 3)) > 0
    kids = list(draw(st.permutations([ref] + ([ref] if twice else []) + others)))
    kind = draw(st.sampled_from(["All", "Any", "AtLeast", "AtMost"]))
    node = {"k": kind, "id": draw(st.sampled_from(["N", None])), "c": kids}
    if kind in ("AtLeast", "AtMost"):
        node["v"] = draw(st.integers(1, 3))
        if kind == "AtLeast":
            node["s"] = draw(st.sampled_from([1, None]))
    depth = draw(st.integers(0, 2))
    for j in range(depth):
        node = {"k": draw(st.sampled_from(["Any", "All", "Imply"])), "id": draw(st.sampled_from([None, "H%d" % j])), "c": [node, _leaf("u%d" % j)]}
    return {"model": {"shared": [sh], "root": node}}


@st.composite
def big_conflict(draw, tier):
    """LARGE models (60-1000 objects) with at most ONE flaw placed far from its counterpart in every traversal order: a leaf id
    that carries other bounds in a distant branch, or an explicit sub-proposition id defined differently in a distant
    branch; the flawless variants must be accepted"""
    n = draw(st.sampled_from([60, 128, 255, 256, 257, 300, 513, 1000]))
    flaw = draw(st.sampled_from(["bounds", "bounds", "compound", "compound", "none"]))
    shape = draw(st.sampled_from(["flat", "rules"]))
    if shape == "flat":
        kids = [_leaf("a%04d" % i) for i in range(n)]
    else:
        kids = [{"k": draw(st.sampled_from(["Any", "All"])), "id": draw(st.sampled_from(["R%04d" % i, None])), "c": [_leaf("x%04d" % i), _leaf("y%04d" % i)]} for i in range(n // 3 + 1)]
    where = draw(st.sampled_from(["first", "last", "middle"]))
    target = {"first": 0, "last": len(kids) - 1, "middle": len(kids) // 2}[where]
    sub_id = draw(st.sampled_from(["zz_sub", "0_sub", "M_sub"]))          # sorts after / before / between the other ids
    if flaw == "bounds":
        victim = kids[target] if shape == "flat" else kids[target]["c"][0]
        kids.append({"k": "Any", "id": sub_id, "c": [_leaf(victim["id"], draw(st.sampled_from([(0, 5), (-1, 1), (1, 1)]))), _leaf("extra_y")]})
    elif flaw == "compound":
        b1 = {"k": "Any", "id": "B", "c": [_leaf("p"), _leaf("q")]}
        b2 = {"k": "Any", "id": "B", "c": [_leaf("p"), _leaf("r")]} if draw(st.booleans()) else {"k": "All", "id": "B", "c": [_leaf("p"), _leaf("q")]}
        kids.insert(0 if where != "first" else len(kids), {"k": "All", "id": "holder1", "c": [b1, _leaf("h1")]})
        kids.append({"k": "Any", "id": sub_id, "c": [{"k": "All", "id": None, "c": [b2, _leaf("h2")]}, _leaf("extra_y")]})
    else:
        kids.append({"k": "Any", "id": sub_id, "c": [_leaf("extra_x"), _leaf("extra_y")]})
    return {"model": {"k": draw(st.sampled_from(["All", "Any"])), "id": draw(st.sampled_from(["ROOT", None])), "c": kids}}


def _resolve(spec):
    """explicit ids given as {"gen_of": node spec} become the generated id of that node"""
    spec = copy.deepcopy(spec)
    for n in oracle.spec_nodes(spec):
        if isinstance(n.get("id"), dict):
            n["id"] = str(build.node(n["id"]["gen_of"], []).id)
    return spec


def check_coincidence(case, ev):
    case = dict(case, model=_resolve(case["model"]))
    m = _build(case, ev)
    if m is None:
        return
    errs = call(m.errors, what="errors()")
    ok, why = oracle.well_defined(m)
    if not errs and not ok:
        raise Violation(f"errors() returns nothing but the model is not well-defined: {why}")
    if case.get("twice") and ok and errs:
        raise Violation(f"model that merely shares identical sub-propositions is rejected by errors(): {[str(e) for e in errs]}")
    ids = {}
    for x in oracle.walk(m):
        if not oracle.is_leaf(x):
            ids.setdefault(x.id, set()).add(id(x))
    clash = any(len(v) >= 2 for v in ids.values())
    ev.case(case, clash, ["accepted" if not errs else "rejected", "well_defined" if ok else "ill_defined", "id_clash" if clash else "no_clash"])


def _build(case, ev):
    try:
        return build.model(case["model"])
    except Exception as e:  # constructor may legitimately refuse (e.g. Bounds lower > upper): out of domain
        from vf.core import from_puan
        if from_puan(e):
            ev.count("constructor_refused")
            return None
        raise


def _multi_id(m):
    seen = {}
    for x in oracle.walk(m):
        seen[x.id] = seen.get(x.id, 0) + 1
    return any(v >= 2 for v in seen.values())


def _validate_twins_first(case, ev):
    """errors() of look-alike models first (same ids, shape, signs, values; one leaf occurrence with other, hash-alike
    bounds): a verdict remembered per 'equal' proposition instead of per definition would be handed to the model under test"""
    n = 0
    for tw in common.twins_one_occurrence(case["model"]):
        try:
            t = build.model(tw)
            if not oracle.is_leaf(t):
                t.errors()
                n += 1
        except BaseException as e:  # noqa  (twins only warm up state; they are not judged)
            if isinstance(e, (KeyboardInterrupt, SystemExit)):
                raise
    ev.count("twins_validated_first", n)


def check_sound(case, ev):
    m = _build(case, ev)
    if m is None or oracle.is_leaf(m):
        return
    _validate_twins_first(case, ev)
    errs = call(m.errors, what="errors()")
    ok, why = oracle.well_defined(m)
    if not errs and not ok:
        raise Violation(f"errors() returns nothing but the model is not well-defined: {why}")
    cl = ["accepted" if not errs else "rejected", "well_defined" if ok else "ill_defined"]
    if not ok:
        cl.append("ill:" + ("cycle" if why.startswith("cycle") else "child_twice" if why.startswith("node") else
                            "two_bounds" if "carries bounds" in why else "two_definitions"))
    ev.case(case, _multi_id(m), cl)


def check_complete(case, ev):
    """constructive / tree models: well-defined => accepted"""
    m = _build(case, ev)
    if m is None or oracle.is_leaf(m):
        return
    ok, why = oracle.well_defined(m)
    _validate_twins_first(case, ev)
    errs = call(m.errors, what="errors()")
    if not errs and not ok:
        raise Violation(f"errors() returns nothing but the model is not well-defined: {why}")
    ids = [x.id for x in oracle.walk(m)]
    distinct = len(set(ids)) == len(ids)
    if case.get("tree") and errs:
        # the WRITTEN model is a tree with pairwise distinct ids by construction (whatever the built objects report as their ids)
        raise Violation(f"tree-shaped model with pairwise distinct ids is rejected by errors(): {[str(e) for e in errs]}")
    if ok and errs:
        kind = "tree-shaped model with pairwise distinct ids" if distinct else "model that merely shares identical sub-propositions"
        raise Violation(f"{kind} is rejected by errors(): {[str(e) for e in errs]}")
    cl = ["well_defined" if ok else "ill_defined", "distinct_ids_tree" if distinct else "shares_subpropositions"]
    cl += common.model_classes(case["model"], None)
    ev.case(case, not distinct or len(ids) >= 4, cl)


@st.composite
def tree(draw, tier):
    """every leaf used once, explicit ids unique -> pairwise distinct ids (derived connectives excluded: they duplicate children)"""
    # pairwise DISTINCT ids - also when they only differ in case, surrounding blanks or unicode composition
    leaf_ids = ["a", "b", "c", "d", "e", "f", "g", "h", "i", "j", "k", "l"]
    comp_ids = ["T%d" % j for j in range(1, 40)]
    if draw(st.integers(0, 2)) == 0:
        leaf_ids = list(draw(st.permutations(["a", "a ", " a", "A", "a\t", "\u00e5", "a\u030a", "b", "b ", "c", "d", "e"])))
        comp_ids = list(draw(st.permutations(["grp", "grp ", " grp", "Grp", "grp\n", "U1", "U1 ", "U2"]))) + comp_ids
    leaves = [{"k": "leaf", "id": i, "b": list(draw(st.sampled_from(BOUNDS)))} for i in leaf_ids]
    counter = [0]

    def node(depth):
        kind = draw(st.sampled_from(["AtLeast", "All", "Any", "AtMost"]))
        n = draw(st.sampled_from([1, 2, 2, 3]))
        ch = []
        for _ in range(n):
            if depth > 0 and draw(st.booleans()):
                ch.append(node(depth - 1))
            elif leaves:
                ch.append(leaves.pop(0))
        if not ch:
            ch.append({"k": "leaf", "id": "z%d" % counter[0], "b": [0, 1]})
        counter[0] += 1
        nd = {"k": kind, "c": ch, "id": comp_ids[counter[0] - 1] if draw(st.booleans()) else None}
        if kind == "AtLeast":
            nd["v"] = draw(st.integers(-2, 4))
            nd["s"] = draw(st.sampled_from([1, -1, None]))
        elif kind == "AtMost":
            nd["v"] = draw(st.integers(0, 3))
        return nd
    return {"model": node(draw(st.integers(1, 3))), "tree": True}


LOOKALIKE = [("grp", "grp "), ("grp", " grp"), ("grp", "Grp"), ("grp", "grp\n"), ("a", "a "), ("\u00e5", "a\u030a"), ("N1", "N1\t"), ("1", "01"), ("x", "\uff58")]
CONFUSABLE_BOUNDS = [((0, 40000), (0, 50000)), ((0, 32767), (0, 32768)), ((-32768, 32767), (-100000, 32767)), ((-32768, 5), (-32769, 5)),
                     ((0, 3), (1, 2)), ((-1, 2), (-2, 3)), ((0, 2 ** 31 - 1), (0, 2 ** 31)), ((0, 1), (0, 65537)), ((0, 1), (-65536, 65537))]


def lookalike_trees(tier):
    """ENUMERATED well-defined trees whose ids are pairwise distinct but LOOK alike (blanks, case, unicode composition):
    compound ids, leaf ids, and one of each"""
    L = lambda i, b=(0, 1): {"k": "leaf", "id": i, "b": list(b)}
    for i1, i2 in LOOKALIKE:
        for kind in ("Any", "All", "AtMost"):
            extra = {"v": 1} if kind == "AtMost" else {}
            yield {"tree": True, "model": {"k": "All", "id": "top", "c": [dict({"k": kind, "id": i1, "c": [L("p"), L("q")]}, **extra), dict({"k": kind, "id": i2, "c": [L("r"), L("s")]}, **extra)]}}
            yield {"tree": True, "model": {"k": "All", "id": "top", "c": [dict({"k": kind, "id": i1, "c": [L("p"), dict({"k": kind, "id": i2, "c": [L("r"), L("s")]}, **extra)]}, **extra), L("z")]}}
            yield {"tree": True, "model": {"k": "All", "id": "top", "c": [dict({"k": kind, "id": "G", "c": [L(i1), L(i2, (0, 3))]}, **extra), L("z")]}}
            yield {"tree": True, "model": {"k": "All", "id": "top", "c": [dict({"k": kind, "id": i1, "c": [L(i2), L("q")]}, **extra), L("z")]}}


def confusable_bounds(tier):
    """ENUMERATED ill-defined models: ONE id carries two different bounds that are easily taken for one another (equal sums,
    equal up to the 16- or 32-bit range, boolean vs wide) in two places of the model - siblings, different depths, via a negation"""
    L = lambda i, b=(0, 1): {"k": "leaf", "id": i, "b": list(b)}
    for b1, b2 in CONFUSABLE_BOUNDS:
        for b1_, b2_ in ((b1, b2), (b2, b1)):
            yield {"model": {"k": "All", "id": "top", "c": [{"k": "Any", "id": "P", "c": [L("t", b1_), L("q")]}, {"k": "Any", "id": "Q", "c": [L("t", b2_), L("r")]}]}}
            yield {"model": {"k": "All", "id": "top", "c": [L("t", b1_), {"k": "Any", "id": "Q", "c": [{"k": "AtLeast", "v": 2, "s": 1, "id": "R", "c": [L("t", b2_), L("r")]}, L("z")]}]}}
            yield {"model": {"k": "Any", "id": "top", "c": [{"k": "Not", "c": [{"k": "All", "id": "P", "c": [L("t", b1_), L("q")]}]}, {"k": "AtMost", "v": 1, "id": "Q", "c": [L("t", b2_), L("r")]}]}}


def parts(tier):
    return [Part("class_twins", strategy=lambda t: S.class_twin_spec().map(lambda s_: {"model": s_}), check=check_complete, quick=(1, 300), thorough=(2, 3000)), Part("by_reference", strategy=lambda t: S.by_reference_spec().map(lambda s_: {"model": s_}), check=check_complete, quick=(1, 200), thorough=(2, 2000))] + [
        Part("adversarial", strategy=lambda t: adversarial(t), check=check_sound, quick=(6, 800), thorough=(12, 8000), fuzz=(2, 60000)),
        Part("big_conflict", strategy=lambda t: big_conflict(t), check=check_complete, quick=(1, 60), thorough=(2, 800)),
        Part("same_object", strategy=lambda t: same_object(t), check=check_sound, quick=(1, 300), thorough=(2, 3000)),
        Part("coincidence", strategy=lambda t: coincidence(t), check=check_coincidence, quick=(1, 400), thorough=(2, 4000)),
        Part("tree", strategy=lambda t: tree(t), check=check_complete, quick=(1, 600), thorough=(2, 4000)),
        Part("lookalike_trees", enumerate_cases=lookalike_trees, check=check_complete, time_quick=100.0),
        Part("confusable_bounds", enumerate_cases=confusable_bounds, check=check_sound, time_quick=100.0),
        Part("sharing", strategy=lambda t: S.model_spec(depth=3 if t == "quick" else 4, profile="small").map(lambda s: {"model": s}),
             check=check_complete, quick=(2, 600), thorough=(4, 4000)),
    ]
