"""C12 - Bound tightening never cuts off a feasible point; row bounds are exact.

Grounding (docstrings in /repo/puan/ndarray/__init__.py + the property text):
  * tighten_column_bounds(): "maybe tighter column/variable bounds based on row constraints", "first [row] is
    the lower bound and the second is the upper bound", "Lower bound may be larger than upper bound. This
    implies contradiction"        -> contains every in-box integer solution, never wider than declared,
                                     inverted pair only when there is no solution
  * column_bounds(): "the initial bounds for each variable"
  * row_bounds(): "the row equation bounds, including the bias ... x+y+z>=1 has bounds of (-1,2)"
                                  -> exactly (min, max) of A_i.x - b_i over the box
  * n_row_combinations: "number of combinations for variables with non-zero coefficients row wise"
Tightness of the tightened bounds is NOT asserted (floor/ceil/round of the division are all sound).
"""
import itertools

from vf import build
from vf.core import Part, Violation, call, digest
from vf.props import polycommon as pc

PROPERTY = "C12"
RULE = ("Same system generator as C11 with the coefficient distribution shifted to magnitudes 2..9 and big-M-like "
        "values (integer division that rounds), boxes boolean / small ranges with negative lower bounds / strictly "
        "negative / degenerate, 16-bit ranges in part 'wide', plus polyhedra of generated logic models. Oracle: "
        "solution set S by box enumeration (mode E), enumeration + exact integer interval for the widest column "
        "(mode I) or exactly verified Hypothesis/milp points (mode P); row bounds by enumerating the columns a row "
        "mentions (small) and by the closed form sum(min/max(a*lo, a*hi)) in Python ints; combination counts as "
        "product of range sizes and by directly counting sub-assignments. Non-trivial = a bound was tightened on a "
        "side where a row with |coefficient|>1 alone implies a tighter bound, or an inverted pair on a system "
        "proven infeasible; distinct = SHA-1 of the canonical case JSON.")
ASSUMPTIONS = ["variable bounds within int16, |coefficient * bound| < 2^31 (far from int64 overflow)",
               "n_row_combinations is only compared when the true count is below 2^63 (4+ full 16-bit columns in one "
               "row exceed int64; counted as skipped_count_overflow)",
               "mode P (>=2 wide columns) decides individual points only; 'inverted => empty' is then checked by "
               "searching a solution with milp and re-verifying it exactly",
               "tightness of tightened bounds is not part of the statement and is not asserted"]

COUNT_GUARD = 4096


def single_row_bound(row, bounds, j):
    """(lower, upper) for column j implied by this row alone over the box (exact, None = no information)"""
    b, a = row
    aj = a[j]
    if aj == 0:
        return None, None
    rest = sum(max(c * lo, c * hi) for k, (c, (lo, hi)) in enumerate(zip(a, bounds)) if c and k != j)
    t = b - rest                       # aj * x_j >= t  is necessary
    if aj > 0:
        return -((-t) // aj), None
    return None, t // aj


def check(case, ev):
    sy = pc.materialize(case, ev)
    if sy is None:
        return
    guard = int(case.get("guard", 4096))
    mode, w = pc.choose_mode(sy.bounds, guard)
    poly = sy.poly
    n = sy.ncols

    # The four queries are put to ONE object in an order derived from the case, and then a second time: the answers
    # must not depend on what was asked before (a cached or aliased intermediate would show here).
    queries = {
        "cb": lambda: pc.as_list(call(poly.column_bounds, what="column_bounds"), "column_bounds()", (2, n)),
        "tb": lambda: pc.as_list(call(poly.tighten_column_bounds, what="tighten_column_bounds"), "tighten_column_bounds()", (2, n)),
        "rb": lambda: pc.as_list(call(poly.row_bounds, what="row_bounds"), "row_bounds()", (sy.nrows, 2)),
        "nrc": lambda: pc.as_list(call(lambda: poly.n_row_combinations, what="n_row_combinations"), "n_row_combinations", (sy.nrows,)),
    }
    import itertools as _it
    from vf.core import digest as _digest
    order = list(_it.permutations(sorted(queries)))[int(_digest(case), 16) % 24]
    first = {k: queries[k]() for k in order}
    second = {k: queries[k]() for k in reversed(order)}
    for k in order:
        if first[k] != second[k]:
            raise Violation(f"{k} answers differently when asked again on the same polyhedron (order {order}): {first[k]} then {second[k]}; "
                            f"rows={sy.rows} bounds={sy.bounds}")
    now = [(int(b_), [int(x) for x in a_]) for b_, a_ in pc.plain_rows(poly)]
    if now != [(int(b_), [int(x) for x in a_]) for b_, a_ in sy.rows]:
        raise Violation(f"the polyhedron's matrix changed while it was queried: {now} vs rows {sy.rows}")
    cb, tb, rb, nrc = first["cb"], first["tb"], first["rb"], first["nrc"]

    # column_bounds: the declared bounds
    for j, (lo, hi) in enumerate(sy.bounds):
        if (cb[0][j], cb[1][j]) != (lo, hi):
            raise Violation(f"column_bounds() column {j}: {(cb[0][j], cb[1][j])}, declared {(lo, hi)}")
    # never wider
    for j, (lo, hi) in enumerate(sy.bounds):
        if tb[0][j] < lo or tb[1][j] > hi:
            raise Violation(f"tighten_column_bounds() widens column {j} ({sy.col_ids[j]!r}): {(tb[0][j], tb[1][j])} "
                            f"vs declared {(lo, hi)}; rows={sy.rows} bounds={sy.bounds}")
    inverted = [j for j in range(n) if tb[0][j] > tb[1][j]]

    # soundness against the solution set
    feasible = None
    if mode == "P":
        cand = [p for p in case.get("points", []) if len(p) == n]
        sols = [p for p in cand if pc.in_box(sy.bounds, p) and pc.holds(sy.rows, p)]
        objectives = [[0] * n]
        for j in range(n):
            if (tb[0][j], tb[1][j]) != sy.bounds[j]:
                objectives += [pc.unit(j, n, 1), pc.unit(j, n, -1)]
        for obj in objectives[:9]:
            x = pc.milp_point(sy.rows, sy.bounds, obj, ev)
            if x is not None and x not in sols:
                sols.append(x)
        if sols:
            feasible = True
        for s in sols:
            for j in range(n):
                if not (tb[0][j] <= s[j] <= tb[1][j]):
                    raise Violation(f"tighten_column_bounds() cuts off the in-bounds integer solution {s}: column {j} "
                                    f"({sy.col_ids[j]!r}) tightened to {(tb[0][j], tb[1][j])}; rows={sy.rows} bounds={sy.bounds}")
    else:
        S = pc.solset(sy.rows, sy.bounds, w)
        feasible = bool(S)
        if S:
            rng = pc.column_range(S, n, w)
            for j in range(n):
                lo, hi = rng[j]
                if lo < tb[0][j] or hi > tb[1][j]:
                    raise Violation(f"tighten_column_bounds() cuts off a feasible point: column {j} ({sy.col_ids[j]!r}) "
                                    f"tightened to {(tb[0][j], tb[1][j])} but in-bounds integer solutions take values "
                                    f"{lo}..{hi} there; rows={sy.rows} bounds={sy.bounds}")
            if inverted:   # implied by the above, kept for an explicit message
                raise Violation(f"tighten_column_bounds() reports lower > upper for columns {inverted} but the system "
                                f"has solutions; rows={sy.rows} bounds={sy.bounds}")
        ev.count("solutions", pc.n_solutions(S, w))

    # row bounds exact; combination counts
    for i, (b, a) in enumerate(sy.rows):
        lo_cf = pc.row_min(a, sy.bounds) - b
        hi_cf = pc.row_max(a, sy.bounds) - b
        cols = [j for j, c in enumerate(a) if c]
        sizes = [sy.bounds[j][1] - sy.bounds[j][0] + 1 for j in cols]
        count = pc.prod(sizes)
        if count <= COUNT_GUARD:
            vals = []
            seen = set()
            for p in itertools.product(*[range(sy.bounds[j][0], sy.bounds[j][1] + 1) for j in cols]):
                seen.add(p)
                vals.append(sum(a[j] * v for j, v in zip(cols, p)) - b)
            lo_e, hi_e, cnt_e = min(vals), max(vals), len(seen)
            ev.count("rows_enumerated")
        else:
            lo_e, hi_e, cnt_e = lo_cf, hi_cf, count
            ev.count("rows_closed_form")
        if (lo_e, hi_e) != (lo_cf, hi_cf) or cnt_e != count:      # two oracles disagree: never expected
            raise AssertionError(f"oracle inconsistency on row {(b, a)} bounds {sy.bounds}")
        if (rb[i][0], rb[i][1]) != (lo_e, hi_e):
            raise Violation(f"row_bounds() row {i} {(b, a)}: {(rb[i][0], rb[i][1])}, but min/max of A_i.x - b_i over the "
                            f"box {sy.bounds} is {(lo_e, hi_e)}")
        if count < 2 ** 63:
            if nrc[i] != cnt_e:
                raise Violation(f"n_row_combinations row {i} {(b, a)}: {nrc[i]}, direct count over box {sy.bounds} is {cnt_e}")
        else:
            ev.count("skipped_count_overflow")

    # classification
    cl = pc.system_classes(sy)
    cl.append("mode_" + mode)
    cl.append("feasible" if feasible else "infeasible" if feasible is False else "feasibility_unknown")
    t_lo = [j for j in range(n) if tb[0][j] > sy.bounds[j][0]]
    t_hi = [j for j in range(n) if tb[1][j] < sy.bounds[j][1]]
    if t_lo:
        cl.append("tightened_lower")
    if t_hi:
        cl.append("tightened_upper")
    by_nonunit = False
    rounding = False
    for j in set(t_lo) | set(t_hi):
        for b, a in sy.rows:
            if abs(a[j]) > 1:
                lo, hi = single_row_bound((b, a), sy.bounds, j)
                hit = (lo is not None and j in t_lo and lo > sy.bounds[j][0]) or \
                      (hi is not None and j in t_hi and hi < sy.bounds[j][1])
                if hit:
                    by_nonunit = True
                    rest = sum(max(c * l, c * h) for k, (c, (l, h)) in enumerate(zip(a, sy.bounds)) if c and k != j)
                    if (b - rest) % a[j] != 0:
                        rounding = True
    if by_nonunit:
        cl.append("tightened_by_nonunit_row")
    if rounding:
        cl.append("division_rounds")
    if inverted:
        cl.append("inverted_pair")
    if any(tb[0][j] == tb[1][j] and sy.bounds[j][0] != sy.bounds[j][1] for j in range(n)):
        cl.append("tightened_to_single_value")
    nontrivial = (by_nonunit and feasible is True) or (bool(inverted) and feasible is False)
    if nontrivial:
        cl.append("nontrivial")
    if mode == "P" and inverted:
        ev.count("inverted_not_refuted_mode_P")
    ev.case(case, nontrivial, cl)


def check_redeclared(case, ev):
    """History part (round 13): bounds are queried, then the column variables are re-declared - on a copy(), on a view and
    in place on the queried object itself (same `variables` array, one entry assigned) - and every answer must describe
    the box that is declared NOW. A memo of the bounds matrix that travels with copies or survives the assignment shows here."""
    import numpy as np
    sy = pc.materialize(case, ev)
    if sy is None:
        return
    puan = build.mods()[0]
    n = sy.ncols
    h = int(digest(case), 16)
    # new boxes: each column shifted/widened/narrowed by a digest-derived amount, kept inside the small range
    newb = []
    for j, (lo, hi) in enumerate(sy.bounds):
        k = (h >> (3 * j)) % 5
        nb = [(lo - 2, hi), (lo, hi + 2), (lo - 1, hi + 3), (lo, lo), (lo + 1, hi + 1)][k]
        newb.append(nb if nb[0] <= nb[1] else (lo, hi))
    if newb == list(sy.bounds):
        newb[0] = (newb[0][0] - 1, newb[0][1] + 1)
    rows = [(int(b_), [int(x) for x in a_]) for b_, a_ in sy.rows]

    def ask(poly):
        return {"cb": pc.as_list(call(poly.column_bounds, what="column_bounds"), "column_bounds()", (2, n)),
                "rb": pc.as_list(call(poly.row_bounds, what="row_bounds"), "row_bounds()", (sy.nrows, 2)),
                "nrc": pc.as_list(call(lambda: poly.n_row_combinations, what="n_row_combinations"), "n_row_combinations", (sy.nrows,)),
                "tb": pc.as_list(call(poly.tighten_column_bounds, what="tighten_column_bounds"), "tighten_column_bounds()", (2, n))}

    def judge(ans, bounds, how):
        for j, (lo, hi) in enumerate(bounds):
            if (ans["cb"][0][j], ans["cb"][1][j]) != (lo, hi):
                raise Violation(f"{how}: column_bounds() column {j} is {(ans['cb'][0][j], ans['cb'][1][j])}, declared now {(lo, hi)} (before {sy.bounds[j]})")
            if ans["tb"][0][j] < lo or ans["tb"][1][j] > hi:
                raise Violation(f"{how}: tighten_column_bounds() widens column {j}: {(ans['tb'][0][j], ans['tb'][1][j])} vs declared now {(lo, hi)}; rows={rows}")
        for i, (b_, a_) in enumerate(rows):
            want = (pc.row_min(a_, bounds) - b_, pc.row_max(a_, bounds) - b_)
            if tuple(ans["rb"][i]) != want:
                raise Violation(f"{how}: row_bounds() row {i} is {tuple(ans['rb'][i])}, exact range over the box declared now {want}; row={rows[i]} bounds now {bounds} before {sy.bounds}")
            cnt = pc.prod(bounds[j][1] - bounds[j][0] + 1 for j, c in enumerate(a_) if c)
            if ans["nrc"][i] != cnt:
                raise Violation(f"{how}: n_row_combinations row {i} is {ans['nrc'][i]}, direct count {cnt} over the box declared now")
        if pc.prod(hi - lo + 1 for lo, hi in bounds) <= COUNT_GUARD:
            for x in itertools.product(*[range(lo, hi + 1) for lo, hi in bounds]):
                if all(sum(a * v for a, v in zip(a_, x)) >= b_ for b_, a_ in rows):
                    for j in range(n):
                        if not (ans["tb"][0][j] <= x[j] <= ans["tb"][1][j]):
                            raise Violation(f"{how}: tighten_column_bounds() cuts off the in-bounds integer solution {list(x)}: column {j} "
                                            f"tightened to {(ans['tb'][0][j], ans['tb'][1][j])}; rows={rows} bounds now {bounds} before {sy.bounds}")

    poly = sy.poly
    judge(ask(poly), list(sy.bounds), "fresh polyhedron")
    mk = lambda: np.array([poly.variables[0]] + [puan.variable(i, b) for i, b in zip(sy.col_ids, newb)], dtype=object)
    kinds = ["copy", "view", "inplace"]
    q = call(poly.copy, what="copy()")
    q.variables = mk() if isinstance(poly.variables, np.ndarray) else list(mk())
    judge(ask(q), newb, "copy() of a queried polyhedron with re-declared variables")
    v = poly[:]
    v.variables = mk() if isinstance(poly.variables, np.ndarray) else list(mk())
    judge(ask(v), newb, "view of a queried polyhedron with re-declared variables")
    judge(ask(poly), list(sy.bounds), "the original after its copy/view were re-declared")
    # in place: one entry after the other of the SAME variables container
    mixed = list(sy.bounds)
    for j in range(n):
        poly.variables[1 + j] = puan.variable(sy.col_ids[j], newb[j])
        mixed[j] = newb[j]
        if j in (0, n - 1):
            judge(ask(poly), list(mixed), f"queried polyhedron after assigning variables[{1 + j}] in place")
    ev.case(case, True, ["redeclared"] + kinds)


def check_sparse(case, ev):
    """large sparse systems with pairwise disjoint rows (>= 1000 matrix entries): exact per-column ranges row by row"""
    poly = call(build.polyhedron, case, what="constructing the polyhedron")
    bounds = [(v[1], v[2]) for v in case["vars"]]
    n = len(bounds)
    truth = pc.block_truth(case)
    tb = pc.as_list(call(poly.tighten_column_bounds, what="tighten_column_bounds"), "tighten_column_bounds()", (2, n))
    tightened = False
    for j, (lo, hi) in enumerate(bounds):
        if tb[0][j] < lo or tb[1][j] > hi:
            raise Violation(f"tighten_column_bounds() widens column {j}: {(tb[0][j], tb[1][j])} vs declared {(lo, hi)}")
        if truth is not None and (tb[0][j] > truth[j][0] or tb[1][j] < truth[j][1]):
            raise Violation(f"tighten_column_bounds() cuts off solutions: column {j} gets {(tb[0][j], tb[1][j])} but takes values "
                            f"{truth[j]} in the solution set; row {[r for r in case['m'] if r[1 + j]]} declared {(lo, hi)}")
        if tb[0][j] > tb[1][j] and truth is not None:
            raise Violation(f"tighten_column_bounds() reports an inverted pair for column {j} although the system is feasible")
        tightened = tightened or (tb[0][j], tb[1][j]) != (lo, hi)
    rb = pc.as_list(call(poly.row_bounds, what="row_bounds"), "row_bounds()", (len(case["m"]), 2))
    for i, row in enumerate(case["m"]):
        want = (pc.row_min(row[1:], bounds) - row[0], pc.row_max(row[1:], bounds) - row[0])
        if (rb[i][0], rb[i][1]) != want:
            raise Violation(f"row_bounds() row {i}: {(rb[i][0], rb[i][1])}, exact range {want}")
    nrc = pc.as_list(call(lambda: poly.n_row_combinations, what="n_row_combinations"), "n_row_combinations", (len(case["m"]),))
    for i, row in enumerate(case["m"]):
        want = pc.prod(bounds[j][1] - bounds[j][0] + 1 for j, c in enumerate(row[1:]) if c)
        if nrc[i] != want:
            raise Violation(f"n_row_combinations row {i}: {nrc[i]}, direct count {want}")
    ev.case(case, tightened, ["sparse_large", "feasible" if truth is not None else "infeasible"])


def parts(tier):
    g = 2048 if tier == "quick" else 20000
    return [
        Part("exact_division", strategy=lambda t: pc.exact_division_case(), check=check, quick=(2, 400), thorough=(4, 6000)),
        Part("narrow_overflow", strategy=lambda t: pc.narrow_overflow_case(), check=check, quick=(1, 150), thorough=(2, 2000)),
        Part("many_columns", strategy=lambda t: pc.many_columns_case(), check=check, quick=(1, 60), thorough=(2, 800)),
        Part("chains", strategy=lambda t: pc.chain_case(guard=g), check=check, quick=(1, 400), thorough=(2, 5000)),
        Part("sparse_large", strategy=lambda t: pc.sparse_block_case(), check=check_sparse, quick=(2, 120), thorough=(4, 1500)),
        Part("redeclared", strategy=lambda t: pc.system_case(profile="small", nonunit=True, guard=g), check=check_redeclared,
             quick=(1, 300), thorough=(2, 4000)),
        Part("small", strategy=lambda t: pc.system_case(profile="small", nonunit=True, guard=g), check=check,
             quick=(3, 1500), thorough=(6, 12000)),
        Part("wide", strategy=lambda t: pc.system_case(profile="wide", nonunit=True, guard=g), check=check,
             quick=(3, 900), thorough=(6, 8000)),
        Part("model", strategy=lambda t: pc.model_poly_case(guard=g), check=check,
             quick=(1, 600), thorough=(2, 5000)),
        Part("model_wide", strategy=lambda t: pc.model_poly_case(guard=g, wide=True), check=check,
             quick=(1, 400), thorough=(2, 3000)),
    ]
