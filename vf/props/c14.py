"""C14 - Configurator objectives realise choices over defaults over stinginess."""
import itertools

from hypothesis import strategies as st

from vf import build, oracle, solvers, strategies as S
from vf.core import Part, Violation, call
from vf.props import common

PROPERTY = "C14"
RULE = ("For configurators with <=10 boolean leaves the integer points of the system handed to the solver are compared with the configurations that satisfy the rules (both directions). Hypothesis generates StingyConfigurator specs over 3-7 boolean items (1-4 rules from defaulted/plain configurator "
        "Any/Xor with the default possibly missing or not among the children, plog Any/Xor/All/AtMost/AtLeast/XNor, Imply with "
        "plain or defaulted consequence, one nesting level) x 1-2 priority dictionaries (0-4 entries, values in +-1..+-3 with "
        "ties and several levels, keys items / auxiliary ids / unknown ids). The objective vectors are captured from the solver "
        "callable given to select(); every configurator gets a second select() with the same keys but other levels/signs.  For configurators with <=16 columns ALL 0/1 points are enumerated; for all pairs among <=60 "
        "feasible points, obj.x vs obj.y must order exactly like the lexicographic key (user levels by decreasing |prio| with "
        "sign, minus #selected non-default-branch nodes, minus #selected other non-prioritised columns), equal iff keys equal. "
        "The set of non-default-branch nodes is derived from the SPEC (complement group of a defaulted Any, directly or inside a "
        "defaulted Xor), not from the code's prio tags, and the default prio vector must be -2 exactly there and -1 elsewhere. "
        "Consequences checked on the brute-force optimum: a unique top-level prioritised item that some feasible point selects "
        "(avoids) is selected (avoided) by every optimum; without priorities and defaults every optimum selects the minimum "
        "number of columns. Non-trivial = >=1 non-default branch AND >=1 effective user priority AND >=3 feasible points; "
        "distinct = SHA-1 of the canonical case JSON.")
ASSUMPTIONS = ["configurators whose polyhedron has more than 16 columns are skipped (counted)",
               "configurators in which a non-default-branch node's id is also carried by another node are skipped (ambiguous)"]


def expected_nondefault_ids(spec):
    """ids of the complement groups of defaulted Any (directly or inside defaulted Xor), derived from the spec"""
    import puan.logic.plog as pg
    out = []

    def rec(n, negated):
        k = n["k"]
        if k in ("leaf", "ref"):
            return
        if k in ("cAny", "cXor") and not negated and n.get("default"):
            d = n["default"][0]
            ch = n["c"]
            comp = [c for c in ch if not (c["k"] == "leaf" and c["id"] == d)]
            if len(ch) > 1 and 0 < len(comp) < len(ch):
                out.append(pg.Any(*[build.node(c) for c in comp]).id)
        for j, c in enumerate(n["c"]):
            # XNor keeps its arguments un-negated in its "at most one" half, so a default below an XNor survives
            rec(c, negated or k == "Not" or (k == "Imply" and j == 0))
    rec(spec, False)
    return out


@st.composite
def case_strategy(draw, tier):
    spec = draw(S.configurator_spec(max_items=6))
    ids = ["a", "b", "c", "d", "e", "f", "R1", "R2", "R3", "zz", "a ", "A", " a"]
    prios = []
    for _ in range(draw(st.integers(1, 2))):
        d = draw(st.dictionaries(st.sampled_from(ids), st.sampled_from([1, 1, 2, 2, 3, -1, -2, -3]), min_size=draw(st.integers(0, 1)), max_size=4))
        prios.append(list(draw(st.permutations([list(kv) for kv in sorted(d.items())]))))     # insertion order is drawn
    if draw(st.integers(0, 5)) == 0:
        # priority levels taken from time stamps / packed counters: huge and close together, still distinct levels
        base = draw(st.sampled_from([2 ** 53, 1_760_000_000_000_000_000, 2 ** 60]))
        prios = [[[k, (base + abs(v) * draw(st.integers(1, 3))) * (1 if v > 0 else -1)] for k, v in pr] for pr in prios]
        return {"model": spec, "prios": prios, "huge_levels": True, "via": draw(st.sampled_from([0, 0, 1, 2]))}
    if draw(st.integers(0, 5)) == 0:
        # levels that differ only at / beyond the 16-bit "default integer range" (a clamp to it would merge them)
        lvl = draw(st.sampled_from([{1: 32767, 2: 32768, 3: 32769}, {1: 40000, 2: 50000, 3: 100000}, {1: 1, 2: 32768, 3: 65536}]))
        prios = [[[k, lvl[abs(v)] * (1 if v > 0 else -1)] for k, v in pr] for pr in prios]
    return {"model": spec, "prios": prios, "via": draw(st.sampled_from([0, 0, 0, 1, 1, 2])), "only_leafs": draw(st.integers(0, 3)) == 0}


def _obtain(c, spec, via, ev):
    """the configurator as users come by it: built with the constructors (0), loaded from its JSON document (1), or grown
    with add() from the configurator without its last rule (2). The expectations are derived from the spec in every case."""
    import json
    import puan.modules.configurator as cc
    if via == 1:
        ev.count("loaded_from_json")
        return call(cc.StingyConfigurator.from_json, json.loads(json.dumps(call(c.to_json, what="to_json"))), what="StingyConfigurator.from_json")
    if via == 2 and spec.get("k") == "Stingy" and len(spec["c"]) >= 2 and spec["c"][-1]["k"] not in ("leaf", "ref"):
        ev.count("grown_with_add")
        base = call(build.model, dict(spec, c=spec["c"][:-1]), what="constructing the configurator")
        return call(base.add, build.node(spec["c"][-1], []), what="add()")
    return c


def _check_request(c, prios, ids, nd_ids, cols, ev, round_no, only_leafs=False):
    log = []
    # the objective must not depend on how the ANSWER is to be reported (only_leafs narrows the response, not the request)
    res = list(call(c.select, *prios, solver=solvers.exact(log, 70000), only_leafs=only_leafs, what="select"))
    if only_leafs:
        res = [(None, None, None) for _ in res]
    if len(log) != 1 or len(log[0]["objectives"]) != len(prios):
        raise Violation(f"solver called {len(log)} times with {[len(x['objectives']) for x in log]} objectives for {len(prios)} priority dicts")
    feas = log[0]["feasible"]
    if feas is None:
        ev.count("skipped_box_too_large")
        return False, None
    if any(tuple(oracle.bounds_tuple(v.bounds)) != (0, 1) for v in cols):
        ev.count("skipped_non_boolean_column")
        return False, None
    sample = feas if len(feas) <= 60 else [feas[(i * len(feas)) // 60] for i in range(60)]
    nontrivial = False
    for pr, obj, (conf, ov, sc) in zip(prios, log[0]["objectives"], res):
        obj = [int(o) for o in obj]
        eff = {i: pr[i] for i in ids if i in pr and pr[i] != 0}
        levels = sorted({abs(v) for v in eff.values()}, reverse=True)

        def key(x):
            k = []
            for L in levels:
                k.append(sum((1 if eff[i] > 0 else -1) * xv for i, xv in zip(ids, x) if i in eff and abs(eff[i]) == L))
            k.append(-sum(xv for i, xv in zip(ids, x) if i not in eff and i in nd_ids))
            k.append(-sum(xv for i, xv in zip(ids, x) if i not in eff and i not in nd_ids))
            return tuple(k)
        keys = [key(x) for x in sample]
        vals = [solvers.objective_value(obj, x) for x in sample]
        for (kx, vx, x), (ky, vy, y) in itertools.combinations(zip(keys, vals, sample), 2):
            if (kx > ky) != (vx > vy) or (kx == ky) != (vx == vy):
                raise Violation(f"request #{round_no + 1} on this configurator: objective {dict(zip(ids, obj))} for priorities {pr} ranks {dict(zip(ids, x))} (value {vx}, key {kx}) vs "
                                f"{dict(zip(ids, y))} (value {vy}, key {ky}) against the lexicographic order "
                                f"(non-default branches: {sorted(nd_ids)})")
        ev.count("pairs", len(sample) * (len(sample) - 1) // 2)
        # consequences on the optimum set
        if feas:
            allv = [solvers.objective_value(obj, x) for x in feas]
            best = max(allv)
            optima = [x for x, v in zip(feas, allv) if v == best]
            if levels:
                top = [i for i in eff if abs(eff[i]) == levels[0]]
                if len(top) == 1:
                    j = ids.index(top[0])
                    want = 1 if eff[top[0]] > 0 else 0
                    if any(x[j] == want for x in feas) and any(x[j] != want for x in optima):
                        raise Violation(f"top priority {top[0]!r}={eff[top[0]]} is feasible to honour but an optimum of the objective does not")
            if not eff and not nd_ids:
                mn = min(sum(x) for x in feas)
                if any(sum(x) != mn for x in optima):
                    raise Violation("no priorities, no defaults: an optimum of the objective selects more than the minimum number of columns")
            if conf:
                got = tuple(int(conf[i]) for i in ids)
                if got not in optima:
                    raise Violation(f"select() reports {conf} which is not an optimum of the handed objective")
        if nd_ids and eff and len(feas) >= 3:
            nontrivial = True
    return nontrivial, feas


def check(case, ev):
    import numpy as np
    spec = case["model"]
    c = common.build_valid(case, ev)
    if c is None:
        return
    build.clear_caches()
    c = _obtain(c, spec, case.get("via", 0), ev)
    if case.get("via", 0) and call(c.errors, what="errors()"):
        # e.g. add() keeps the GENERATED id of a one-rule configurator, which is also the generated id of the complement
        # group Any(R1) inside the added rule: the grown configurator is ill-defined (validation says so) - not C14's subject
        ev.count("discarded_invalid_after_load_or_add")
        return
    poly = call(lambda: c.ge_polyhedron, what="ge_polyhedron")
    cols = list(poly.variables[1:])
    ids = [v.id for v in cols]
    if len(ids) > 16:
        ev.count("skipped_more_than_16_columns")
        return
    nd_ids = set(expected_nondefault_ids(spec))
    by_id = {}
    for x in oracle.walk(c):
        by_id.setdefault(x.id, set()).add(id(x))
    # only ambiguity that follows from the SPEC (an expected non-default-branch id carried by another node as well) is
    # skipped; where the code puts its tags is what is being judged
    if any(len(by_id.get(i, ())) > 1 for i in nd_ids):
        ev.count("skipped_ambiguous_branch_sharing")
        return
    # every non-default branch the spec defines must be a column (it is what carries the cost of leaving a default)
    missing = sorted(nd_ids - set(ids))
    if missing:
        raise Violation(f"the non-default branch(es) {missing} of a defaulted Any/Xor are not columns of the configurator's polyhedron "
                        f"(columns {ids}): leaving the default costs nothing")
    # default prio vector: -2 exactly on the non-default branches
    dpv = [int(x) for x in np.asarray(poly.default_prio_vector).tolist()]
    for i, w in zip(ids, dpv):
        want = -2 if i in nd_ids else -1
        if w != want:
            raise Violation(f"default prio of column {i!r} is {w}, expected {want} (non-default branches by spec: {sorted(nd_ids)})")
    prios1 = [dict((k, v) for k, v in pr) for pr in case["prios"]]
    # a second request on the SAME configurator with the same keys but other levels/signs: the objective must follow the
    # dictionary of that request, not an earlier one
    remap = {1: -2, 2: 3, 3: 1, -1: 2, -2: -1, -3: -3}
    prios2 = [{k: remap.get(v, -v) for k, v in pr.items()} for pr in prios1]
    nontrivial = False
    feas = None
    for round_no, prios in enumerate([prios1, prios2]):
        if round_no == 1 and not any(prios1):
            break
        nt, feas = _check_request(c, prios, ids, nd_ids, cols, ev, round_no, only_leafs=bool(case.get("only_leafs")) and round_no == 0)
        if feas is None:
            return
        nontrivial = nontrivial or nt
    # "feasible configurations" are those of the CONFIGURATOR: what the solver may choose from (the integer points of the
    # handed system) must be the configurations that satisfy the rules, no more (solver-safe form) and no fewer
    lv = oracle.leaves(c)
    if feas is not None and all(i in ids for i in lv) and all(b_ == (0, 1) for b_ in lv.values()):
        pos = {i: ids.index(i) for i in lv}
        leaf_parts = {tuple(x[pos[i]] for i in sorted(lv)) for x in feas}
        if oracle.solver_safe(c):
            for part in sorted(leaf_parts)[:300]:
                env = dict(zip(sorted(lv), part))
                if oracle.obj_value(c, env) != 1:
                    raise Violation(f"the system handed to the solver admits {env}, which violates the configurator's rules (the solver would be "
                                    f"free to return it for any priorities)")
        if len(lv) <= 10:
            n_sat = 0
            for env in oracle.box_points(sorted(lv), [(0, 1)] * len(lv)):
                if oracle.obj_value(c, env) == 1:
                    n_sat += 1
                    if tuple(env[i] for i in sorted(lv)) not in leaf_parts:
                        raise Violation(f"the configuration {env} satisfies every rule but is not among the integer points of the system handed to the solver")
            ev.count("feasible_sets_compared_with_rules")
    cl = ["kind:" + k for k in sorted({n["k"] for n in oracle.spec_nodes(spec)} - {"leaf", "ref"})]
    cl.append("feasible>=3" if len(feas) >= 3 else "feasible<3")
    if nd_ids:
        cl.append("has_non_default_branch")
    if any(len({abs(v) for _, v in pr}) >= 2 for pr in case["prios"]):
        cl.append("several_priority_levels")
    if any(v < 0 for pr in case["prios"] for _, v in pr):
        cl.append("negative_priority")
    if any(k in ("R1", "R2", "R3") and k in ids for pr in case["prios"] for k, _ in pr):
        cl.append("priority_on_auxiliary")
    if case.get("only_leafs"):
        cl.append("only_leafs")
    if not feas:
        cl.append("infeasible")
    ev.case(case, nontrivial, cl)


@st.composite
def big_case(draw, tier):
    """catalogue-size configurators (60-450 columns): the objective is judged on pairs of CONSTRUCTED feasible configurations
    (one option per group from drawn patterns, auxiliary columns by evaluation), since nothing can be enumerated"""
    spec = draw(S.big_configurator_spec())
    groups = [n for n in spec["c"] if n["k"] in ("cXor", "cAny")]
    keys = []
    for g in draw(st.lists(st.integers(0, len(groups) - 1), min_size=1, max_size=4, unique=True)):
        opts = [c["id"] for c in groups[g]["c"]]
        keys.append(opts[draw(st.integers(0, len(opts) - 1))])
        if draw(st.booleans()):
            keys.append(opts[draw(st.integers(0, len(opts) - 1))])
    keys = list(dict.fromkeys(keys))
    pr = [[k, draw(st.sampled_from([1, 2, 2, 3, -1, -2]))] for k in keys]
    pr = list(draw(st.permutations(pr)))           # insertion order of the dictionary is NOT the order of the ids
    picks = draw(st.lists(st.integers(0, 2 ** 30), min_size=10, max_size=14))
    return {"model": spec, "prios": [pr], "picks": picks, "via": draw(st.sampled_from([0, 0, 1]))}


def check_big(case, ev):
    import numpy as np
    spec = case["model"]
    c = common.build_valid(case, ev)
    if c is None:
        return
    build.clear_caches()
    c = _obtain(c, spec, case.get("via", 0), ev)
    if case.get("via", 0) and call(c.errors, what="errors()"):
        ev.count("discarded_invalid_after_load_or_add")
        return
    poly = call(lambda: c.ge_polyhedron, what="ge_polyhedron")
    cols, rws = oracle.rows(poly)
    ids = [v.id for v in cols]
    nd_ids = set(expected_nondefault_ids(spec))
    missing = sorted(nd_ids - set(ids))
    if missing:
        raise Violation(f"the non-default branch(es) {missing[:4]} of a defaulted Any/Xor are not columns of the configurator's polyhedron")
    dpv = [int(x) for x in np.asarray(poly.default_prio_vector).tolist()]
    for i, w in zip(ids, dpv):
        want = -2 if i in nd_ids else -1
        if w != want:
            raise Violation(f"default prio of column {i!r} is {w}, expected {want}")
    lv = oracle.leaves(c)
    comps = oracle.compounds(c)
    groups = [n for n in spec["c"] if n["k"] in ("cXor", "cAny")]
    points = []
    for pk in case["picks"]:
        env = {i: 0 for i in lv}
        for n in spec["c"]:
            if n["k"] == "leaf":
                env[n["id"]] = 1                      # top-level items are conjuncts of the configurator
        for g, n in enumerate(groups):
            opts = [c_["id"] for c_ in n["c"]]
            env[opts[(pk >> (2 * (g % 15))) % len(opts)]] = 1
            if n["k"] == "cAny" and (pk >> (g % 29)) & 1:
                env[opts[(pk >> (g % 13)) % len(opts)]] = 1
        # repair picks that violate a requirement rule  a -> b  by switching b's group to b
        owner = {c_["id"]: n for n in groups for c_ in n["c"]}
        for _ in range(4):
            for n in spec["c"]:
                if n["k"] == "Imply" and all(c_["k"] == "leaf" for c_ in n["c"]):
                    a_, b_ = n["c"][0]["id"], n["c"][1]["id"]
                    if env.get(a_) == 1 and env.get(b_) == 0 and b_ in owner:
                        if owner[b_]["k"] == "cXor":
                            for c_ in owner[b_]["c"]:
                                env[c_["id"]] = 0
                        env[b_] = 1
        memo = {}
        if oracle.obj_value(c, env, memo=memo) != 1:
            continue                                  # still violates a requirement rule between groups
        full = dict(env)
        for cid, node in comps.items():
            full[cid] = oracle.obj_value(node, env, memo=memo)
        x = [full[i] for i in ids]
        if not oracle.all_rows_hold(rws, x):
            raise Violation(f"a configuration that satisfies every rule (with evaluated auxiliary values) is not a point of the configurator's polyhedron")
        points.append(x)
    prios = [dict((k, v) for k, v in pr) for pr in case["prios"]]
    log = []
    list(call(c.select, *prios, solver=solvers.marker(log), what="select"))
    if len(log) != 1 or len(log[0]["objectives"]) != len(prios):
        raise Violation("solver not called once with one objective per priority dictionary")
    n_pairs = 0
    for pr, obj in zip(prios, log[0]["objectives"]):
        obj = [int(o) for o in obj]
        eff = {i: pr[i] for i in ids if i in pr and pr[i] != 0}
        levels = sorted({abs(v) for v in eff.values()}, reverse=True)

        def key(x):
            k = []
            for L_ in levels:
                k.append(sum((1 if eff[i] > 0 else -1) * xv for i, xv in zip(ids, x) if i in eff and abs(eff[i]) == L_))
            k.append(-sum(xv for i, xv in zip(ids, x) if i not in eff and i in nd_ids))
            k.append(-sum(xv for i, xv in zip(ids, x) if i not in eff and i not in nd_ids))
            return tuple(k)
        keys = [key(x) for x in points]
        vals = [solvers.objective_value(obj, x) for x in points]
        for (kx, vx), (ky, vy) in itertools.combinations(zip(keys, vals), 2):
            n_pairs += 1
            if (kx > ky) != (vx > vy) or (kx == ky) != (vx == vy):
                raise Violation(f"objective for priorities {list(pr.items())} ranks two feasible configurations (values {vx} vs {vy}) against their "
                                f"lexicographic keys {kx} vs {ky} (user levels, non-default branches, selected columns); {len(ids)} columns")
    ev.count("pairs", n_pairs)
    ev.case(case, len(points) >= 3 and bool(nd_ids), ["columns>=257" if len(ids) >= 257 else "columns<257", f"feasible_constructed={min(len(points), 5)}"])


def parts(tier):
    return [Part("direct_config", strategy=lambda t: __import__("vf.props.c15", fromlist=["x"]).narrow_config_case(t), check=__import__("vf.props.c15", fromlist=["x"]).check_narrow_config, quick=(1, 150), thorough=(2, 1500)), Part("cfg_shapes", enumerate_cases=(lambda t: ({"model": s_, "prios": [[["item", 1]], []][: 1 + (j_ % 2)], "via": j_ % 3} for j_, s_ in enumerate(S.cfg_small_shapes()))), check=check, time_quick=150.0), Part("scale", strategy=lambda t: big_case(t), check=check_big, quick=(2, 20), thorough=(4, 300)), Part("objective", strategy=lambda t: case_strategy(t), check=check, quick=(8, 250), thorough=(16, 1500))]
