"""C11 - Polyhedron reduction preserves the integer solution set.

Grounding of the assertions (all in /repo/puan/ndarray/__init__.py docstrings + the property text):
  * reducable_rows(): "Ax >= b will always hold, regardless of x"      -> a flagged row holds on every box point
  * reducable_columns_approx() / column vector of reducable_rows_and_columns(): "could be assumed"
                                                                         -> every in-box solution has the value
  * rows of reducable_rows_and_columns(): flagged *after* the forced columns were substituted (own doctest
    flags ``x4 >= 1`` once x4 is forced)                                -> holds on every box point that has the
                                                                            forced columns at their forced values
  * reduce(rows, cols): removes the rows with flag 1 and the columns with a non-NaN value, moving
    ``a*value`` into b                                                   -> solution set == projection of S
  * variables / index of the result describe its columns / rows (kept ones, in order).
Incomplete reports (nothing flagged, fix-point loop stopping early) are never a violation.
"""
from vf import build
from vf.core import Part, Violation, call
from vf.props import polycommon as pc

PROPERTY = "C11"
RULE = ("Hypothesis generates integer systems A.x>=b (1-5 rows x 1-5 columns; coefficients 0/+-1 with a share of "
        "+-2..9 and big-M-like +-10..10^4; b placed relative to a corner-biased witness point, the row maximum "
        "(forces columns), the row minimum (reducible rows) or beyond the maximum (infeasible); column bounds boolean, "
        "small ranges incl. negative lower bounds, strictly negative ranges, degenerate (k,k), and 16-bit ranges in "
        "part 'wide'; explicit distinct variable ids and mostly explicit row index ids) and, in part 'model', "
        "polyhedra from to_ge_polyhedron(active) of generated logic models (big-M rows). Oracle: solution set S by "
        "enumerating the box (mode E), by enumerating all but the widest column and solving that one as an exact "
        "integer interval (mode I), or - several wide columns - by exactly re-verified points drawn by Hypothesis "
        "or proposed by scipy milp (mode P). Non-trivial = at least one row or column reported reducible AND S "
        "non-empty; distinct = SHA-1 of the canonical case JSON.")
ASSUMPTIONS = ["variable bounds within int16, |coefficient * bound| < 2^31 (far from int64 overflow)",
               "mode P (>=2 wide columns) decides individual points only; emptiness is not decided there",
               "scipy.optimize.milp is a point generator only; every point is re-verified in Python ints",
               "rows flagged by reducable_rows_and_columns are required to hold given the forced columns, not on the whole box",
               "reducable_rows_and_columns burning more than 20 s of process CPU time in one call (normally ~1 ms) is "
               "reported as non-termination of its fix-point loop",
               "puan_rspy 0.3.0 binary is part of the system under test (model part)"]


def _check_forced(name, forced, sy, S, w, sols):
    """every known solution has the forced value; a forced value lies inside the column bounds"""
    if S is not None:
        if not S:
            return
        rng = pc.column_range(S, sy.ncols, w)
        for j, v in enumerate(forced):
            if v is None:
                continue
            lo, hi = rng[j]
            if not (lo == v and hi == v):
                raise Violation(f"{name}: column {j} ({sy.col_ids[j]!r}) reported forced to {v} but in-bounds integer "
                                f"solutions take values {lo}..{hi} there; rows={sy.rows} bounds={sy.bounds}")
            if not (sy.bounds[j][0] <= v <= sy.bounds[j][1]):
                raise Violation(f"{name}: forced value {v} of column {j} outside its bounds {sy.bounds[j]}")
    else:
        for s in sols:
            for j, v in enumerate(forced):
                if v is not None and s[j] != v:
                    raise Violation(f"{name}: column {j} ({sy.col_ids[j]!r}) reported forced to {v} but {s} is an "
                                    f"in-bounds integer solution; rows={sy.rows} bounds={sy.bounds}")
        if sols:
            for j, v in enumerate(forced):
                if v is not None and not (sy.bounds[j][0] <= v <= sy.bounds[j][1]):
                    raise Violation(f"{name}: forced value {v} of column {j} outside its bounds {sy.bounds[j]}")


def _check_rows(name, flags, fixed, sy, guard):
    for i, f in enumerate(flags):
        if f and not pc.row_always_holds(sy.rows[i], sy.bounds, fixed, guard):
            cond = f" (with forced columns {fixed})" if fixed else ""
            raise Violation(f"{name}: row {i} {sy.rows[i]} reported reducible but some in-bounds point{cond} "
                            f"violates it; bounds={sy.bounds}")


def _check_reduce(name, rows_vec, cols_vec, flags, forced, sy, S, w, sols, cand, ev):
    """reduce(rows_vec, cols_vec) against the projection of S.  flags/forced: plain lists (or None)."""
    res = call(sy.poly.reduce, rows_vec, cols_vec, what=f"reduce[{name}]")
    keep_r = [i for i in range(sy.nrows) if not (flags and flags[i])]
    keep_c = [j for j in range(sy.ncols) if not (forced and forced[j] is not None)]
    shape = tuple(res.shape)
    if shape != (len(keep_r), 1 + len(keep_c)):
        raise Violation(f"reduce[{name}]: result shape {shape}, expected {(len(keep_r), 1 + len(keep_c))} "
                        f"(rows flagged {flags}, columns {forced})")
    got_vars = pc.var_triples(call(lambda: res.A.variables, what="result.A.variables"))
    exp_vars = [(sy.col_ids[j], sy.bounds[j][0], sy.bounds[j][1]) for j in keep_c]
    if got_vars != exp_vars:
        raise Violation(f"reduce[{name}]: result.A.variables {got_vars} do not describe the kept columns {exp_vars}")
    sv, sv0 = res.variables[0], sy.poly.variables[0]      # whatever labels the support column of the input labels it in the result
    if len(res.variables) != 1 + len(keep_c) or sv.id != sv0.id or type(sv.id) is not type(sv0.id) or \
            (int(sv.bounds.lower), int(sv.bounds.upper)) != (int(sv0.bounds.lower), int(sv0.bounds.upper)):
        raise Violation(f"reduce[{name}]: result.variables {list(res.variables)} lost the variable of the support column ({sv0})")
    got_idx = [v.id for v in res.index]
    exp_idx = [sy.index_ids[i] for i in keep_r]
    if got_idx != exp_idx:
        raise Violation(f"reduce[{name}]: result.index {got_idx} does not describe the kept rows {exp_idx}")
    rrows = pc.plain_rows(res)
    rbounds = [(t[1], t[2]) for t in got_vars]
    if S is not None:
        proj = pc.project(S, sy.ncols, w, keep_c)
        w2 = keep_c.index(w) if (w is not None and w in keep_c) else None
        rsol = pc.solset(rrows, rbounds, w2)
        if proj != rsol:
            for k in proj:
                if k not in rsol or proj[k] != rsol[k]:
                    raise Violation(f"reduce[{name}]: projection of the original solution set has {k}:{proj[k]} "
                                    f"(enumerated columns:interval) but the reduced polyhedron has {rsol.get(k, 'nothing')}; "
                                    f"original rows={sy.rows} bounds={sy.bounds}; flagged rows={flags} columns={forced}; "
                                    f"result rows={rrows} bounds={rbounds}")
            k = next(k for k in rsol if k not in proj)
            raise Violation(f"reduce[{name}]: reduced polyhedron has solution {k}:{rsol[k]} over the kept columns "
                            f"{[sy.col_ids[j] for j in keep_c]} which is not the projection of any original solution; "
                            f"original rows={sy.rows} bounds={sy.bounds}; flagged rows={flags} columns={forced}; "
                            f"result rows={rrows}")
        ev.count("reduce_compared_exactly")
        return len(keep_r), len(keep_c)
    # mode P: individual points in both directions
    for s in sols:
        y = [s[j] for j in keep_c]
        if not (pc.in_box(rbounds, y) and pc.holds(rrows, y)):
            raise Violation(f"reduce[{name}]: {s} solves the original but its projection {y} does not solve the "
                            f"reduced polyhedron rows={rrows} bounds={rbounds}; original rows={sy.rows} bounds={sy.bounds}; "
                            f"flagged rows={flags} columns={forced}")
    ys = [[p[j] for j in keep_c] for p in cand]
    if keep_c:
        y = pc.milp_point(rrows, rbounds, [0] * len(keep_c), ev)
        if y is not None:
            ys.append(y)
    for y in ys:
        if pc.in_box(rbounds, y) and pc.holds(rrows, y):
            x = [None] * sy.ncols
            for j, v in zip(keep_c, y):
                x[j] = v
            for j in range(sy.ncols):
                if x[j] is None:
                    x[j] = forced[j]
            ok = all(v == int(v) for v in x)
            if ok:
                x = [int(v) for v in x]
                ok = pc.in_box(sy.bounds, x) and pc.holds(sy.rows, x)
            if not ok:
                raise Violation(f"reduce[{name}]: {y} solves the reduced polyhedron rows={rrows} bounds={rbounds} but "
                                f"its extension {x} by the forced values is not an in-bounds solution of the original "
                                f"rows={sy.rows} bounds={sy.bounds}; flagged rows={flags} columns={forced}")
            ev.count("reduced_points_checked")
    return len(keep_r), len(keep_c)


def check_redeclared(case, ev):
    """History part (round 13): bounds-dependent queries are put to a fresh polyhedron, then its column variables are
    re-declared - entry by entry in place on the queried object, or on a copy() / a view of it (chosen by the case digest) -
    and the whole of `check` runs against the box declared NOW. A memo of bounds that survives the assignment or travels
    with derived arrays makes rows / columns look reducible that no longer are."""
    import numpy as np
    from vf.core import digest as _digest
    sy = pc.materialize(case, ev)
    if sy is None:
        return
    puan = build.mods()[0]
    poly = sy.poly
    for f in (poly.column_bounds, poly.reducable_rows, poly.reducable_columns_approx, poly.tighten_column_bounds):
        call(f, what="query before re-declaring")
    pc.bounded(poly.reducable_rows_and_columns, what="reducable_rows_and_columns before re-declaring")
    h = int(_digest(case), 16)
    newb = []
    for j, (lo, hi) in enumerate(sy.bounds):
        nb = [(lo - 2, hi), (lo, hi + 2), (lo - 1, hi + 3), (lo, lo), (lo + 1, hi + 1)][(h >> (3 * j)) % 5]
        newb.append(nb)
    if newb == list(sy.bounds):
        newb[0] = (newb[0][0] - 1, newb[0][1] + 1)
    how = ["inplace", "copy", "view"][(h >> 61) % 3]
    if how == "inplace":
        target = poly
        for j in range(sy.ncols):
            target.variables[1 + j] = puan.variable(sy.col_ids[j], newb[j])
    else:
        target = call(poly.copy, what="copy()") if how == "copy" else poly[:]
        fresh = [poly.variables[0]] + [puan.variable(i, b) for i, b in zip(sy.col_ids, newb)]
        target.variables = np.array(fresh, dtype=object) if isinstance(poly.variables, np.ndarray) else fresh
    sy2 = pc.System(target, sy.col_ids, newb, sy.rows, sy.index_ids, list(sy.classes) + ["redeclared", "redeclared_" + how])
    check(case, ev, sy=sy2)


def check(case, ev, sy=None):
    sy = sy if sy is not None else pc.materialize(case, ev)
    if sy is None:
        return
    guard = int(case.get("guard", 4096))
    mode, w = pc.choose_mode(sy.bounds, guard)
    poly = sy.poly

    # the three reports are asked from ONE object in an order derived from the case, then once more: the answers must not
    # depend on what was asked before, and the matrix must be untouched
    import itertools as _it
    import numpy as _np
    from vf.core import digest as _digest
    asks = {
        "rr": lambda: call(poly.reducable_rows, what="reducable_rows"),
        "ca": lambda: call(poly.reducable_columns_approx, what="reducable_columns_approx"),
        "fx": lambda: pc.bounded(poly.reducable_rows_and_columns, what="reducable_rows_and_columns"),
    }
    order = list(_it.permutations(sorted(asks)))[int(_digest(case), 16) % 6]
    first = {k: asks[k]() for k in order}
    second = {k: asks[k]() for k in reversed(order)}

    def _canon(v):
        return [_canon(x) for x in v] if isinstance(v, (tuple, list)) else [None if (isinstance(x, float) and x != x) else x for x in _np.asarray(v, dtype=float).ravel().tolist()]
    for k in order:
        if _canon(first[k]) != _canon(second[k]):
            raise Violation(f"{k} reports differently when asked again on the same polyhedron (order {order}); rows={sy.rows} bounds={sy.bounds}")
    now = [(int(b_), [int(x) for x in a_]) for b_, a_ in pc.plain_rows(poly)]
    if now != [(int(b_), [int(x) for x in a_]) for b_, a_ in sy.rows]:
        raise Violation(f"the polyhedron's matrix changed while it was queried: {now} vs rows {sy.rows}")
    rr_v, ca_v, (fr_v, fc_v) = first["rr"], first["ca"], first["fx"]
    rr = [bool(x) for x in pc.as_list(rr_v, "reducable_rows()", (sy.nrows,))]
    ca = pc.forced_list(pc.as_list(ca_v, "reducable_columns_approx()", (sy.ncols,)))
    fr = [bool(x) for x in pc.as_list(fr_v, "reducable_rows_and_columns()[0]", (sy.nrows,))]
    fc = pc.forced_list(pc.as_list(fc_v, "reducable_rows_and_columns()[1]", (sy.ncols,)))

    # NOTE: A_min / A_max are deliberately NOT compared with exact per-entry minima/maxima. The property speaks about what
    # is reported as reducible / forced, not about these helpers: a weaker but sound A_min (fewer rows flagged) must stay
    # quiet, and an unsound one shows up in the row / column / projection clauses below.
    S, sols, cand = None, [], []
    if mode == "P":
        cand = [p for p in case.get("points", []) if len(p) == sy.ncols]
        sols = [p for p in cand if pc.in_box(sy.bounds, p) and pc.holds(sy.rows, p)]
        objectives = [[0] * sy.ncols]
        for j in range(sy.ncols):
            if ca[j] is not None or fc[j] is not None:
                objectives += [pc.unit(j, sy.ncols, 1), pc.unit(j, sy.ncols, -1)]
        for obj in objectives[:9]:
            x = pc.milp_point(sy.rows, sy.bounds, obj, ev)
            if x is not None and x not in sols:
                sols.append(x)
        feasible = True if sols else None
    else:
        S = pc.solset(sy.rows, sy.bounds, w)
        feasible = bool(S)

    # 1. rows reported reducible hold everywhere in the box
    _check_rows("reducable_rows", rr, {}, sy, guard)
    # 2. forced columns
    _check_forced("reducable_columns_approx", ca, sy, S, w, sols)
    _check_forced("reducable_rows_and_columns", fc, sy, S, w, sols)
    # 3. rows of the fix point hold given the forced columns
    _check_rows("reducable_rows_and_columns", fr, {j: v for j, v in enumerate(fc) if v is not None}, sy, guard)
    # 4. reduce with the reported vectors
    left = _check_reduce("fixpoint", fr_v, fc_v, fr, fc, sy, S, w, sols, cand, ev)
    _check_reduce("rows", rr_v, None, rr, None, sy, S, w, sols, cand, ev)
    _check_reduce("columns", None, ca_v, None, ca, sy, S, w, sols, cand, ev)
    _check_reduce("rows+columns", rr_v, ca_v, rr, ca, sy, S, w, sols, cand, ev)

    n_fc = sum(v is not None for v in fc)
    n_fr = sum(fr)
    cl = pc.system_classes(sy)
    cl.append("mode_" + mode)
    cl.append("feasible" if feasible else "infeasible" if feasible is False else "feasibility_unknown")
    if n_fc:
        cl.append("forced_columns")
    if n_fr:
        cl.append("reduced_rows")
    if n_fc and n_fr:
        cl.append("forced_columns_and_reduced_rows")
    if any(v is not None and v not in (0, 1) for v in fc):
        cl.append("forced_value_not_0_1")
    if sum(rr) < n_fr:
        cl.append("fixpoint_found_more_rows")
    if sum(v is not None for v in ca) < n_fc:
        cl.append("fixpoint_found_more_columns")
    if left[1] == 0:
        cl.append("all_columns_removed")
    if left[0] == 0:
        cl.append("all_rows_removed")
    if feasible and (n_fc or n_fr):
        cl.append("nontrivial")
    if S is not None:
        ev.count("solutions", pc.n_solutions(S, w))
    ev.case(case, bool(feasible) and (n_fc > 0 or n_fr > 0), cl)


def check_sparse(case, ev):
    """large sparse systems with pairwise disjoint rows: the exact per-column value ranges are known row by row"""
    import math
    poly = call(build.polyhedron, case, what="constructing the polyhedron")
    bounds = [(v[1], v[2]) for v in case["vars"]]
    truth = pc.block_truth(case)
    rr = [bool(x) for x in pc.as_list(call(poly.reducable_rows, what="reducable_rows"), "reducable_rows()", (len(case["m"]),))]
    for i, row in enumerate(case["m"]):
        if rr[i] and pc.row_min(row[1:], bounds) < row[0]:
            raise Violation(f"reducable_rows(): row {i} {row[0]} <= {[(j, c) for j, c in enumerate(row[1:]) if c]} is reported reducible but "
                            f"its minimum over the box is {pc.row_min(row[1:], bounds)}")
    ca = pc.forced_list(pc.as_list(call(poly.reducable_columns_approx, what="reducable_columns_approx"), "reducable_columns_approx()", (len(bounds),)))
    fr_v, fc_v = pc.bounded(poly.reducable_rows_and_columns, what="reducable_rows_and_columns")
    fc = pc.forced_list(pc.as_list(fc_v, "reducable_rows_and_columns()[1]", (len(bounds),)))
    n_forced = 0
    if truth is not None:
        for name, vec in (("reducable_columns_approx", ca), ("reducable_rows_and_columns", fc)):
            for j, v in enumerate(vec):
                if v is not None:
                    n_forced += 1
                    if truth[j] != (v, v):
                        raise Violation(f"{name}: column {j} is reported forced to {v} but takes the values {truth[j]} in the solution set; "
                                        f"row {[r for r in case['m'] if r[1 + j]]} bounds {bounds[j]}")
    ev.case(case, n_forced > 0 or any(rr), ["sparse_large", "feasible" if truth is not None else "infeasible"])


def parts(tier):
    g = 2048 if tier == "quick" else 20000
    return [
        Part("narrow_overflow", strategy=lambda t: pc.narrow_overflow_case(), check=check, quick=(1, 300), thorough=(2, 4000)),
        Part("exact_division", strategy=lambda t: pc.exact_division_case(), check=check, quick=(1, 400), thorough=(2, 6000)),
        Part("many_columns", strategy=lambda t: pc.many_columns_case(), check=check, quick=(1, 60), thorough=(2, 800)),
        Part("chains", strategy=lambda t: pc.chain_case(guard=g), check=check, quick=(2, 400), thorough=(4, 5000)),
        Part("sparse_large", strategy=lambda t: pc.sparse_block_case(), check=check_sparse, quick=(2, 120), thorough=(4, 1500)),
        Part("redeclared", strategy=lambda t: pc.system_case(profile="small", guard=g), check=check_redeclared,
             quick=(1, 300), thorough=(2, 4000)),
        Part("small", strategy=lambda t: pc.system_case(profile="small", guard=g), check=check,
             quick=(3, 1200), thorough=(6, 14000)),
        Part("wide", strategy=lambda t: pc.system_case(profile="wide", guard=g), check=check,
             quick=(2, 800), thorough=(4, 9000)),
        Part("model", strategy=lambda t: pc.model_poly_case(guard=g), check=check,
             quick=(2, 600), thorough=(4, 7500)),
        Part("model_wide", strategy=lambda t: pc.model_poly_case(guard=g, wide=True), check=check,
             quick=(1, 400), thorough=(2, 5000)),
    ]
