"""C08 - reduce() preserves meaning and removes every fixed variable."""
import itertools

from hypothesis import strategies as st

from vf import build, oracle, strategies as S
from vf.core import Part, Violation, call
from vf.props import common

PROPERTY = "C08"
RULE = ("Part 'big_constants': ENUMERATED nodes that stay undecided next to a leaf fixed (by bounds or assume) at 32767..3*10^9 / -2^31-7, threshold = constant + 1, either sign, alone / under All / below a negation. Parts 'shapes*': EXHAUSTIVE enumeration of every single threshold node (all values/signs) alone and inside every connective, "
        "with one of its leaves fixed by bounds. Part 'reduce': Hypothesis generates validated model DAG specs with constant-bounds leaves ((k,k), boolean and integer) and pre-fixed "
        "sub-propositions, optionally followed by assume(D) (leaf ints and sub-proposition 0/1 values) x ALL interpretations "
        "of the still-free leaves (enumerated up to the guard, else drawn). Oracles: reduce() result, evaluated by the reference "
        "arithmetic evaluator over the structure reduce() produced (and by puan's evaluate on a few points), equals the "
        "reference value of the unreduced model with the constants substituted; the result contains no variable or "
        "sub-proposition with constant bounds unless it is a single constant variable; free leaves of the result are a subset "
        "of the input's free leaves. Non-trivial = >=1 constant removed under a negatively signed parent, or a non-zero "
        "constant removed, or a collapse to a single constant; distinct = SHA-1 of the canonical case JSON.")
ASSUMPTIONS = ["the root id is never put into the assumption dictionary (assume() then returns a bare variable, which has no reduce())"]


@st.composite
def case_strategy(draw, tier):
    c = draw(common.model_case(guard=800 if tier == "quick" else 3000, n_points=(12, 32), depth=3 if tier == "quick" else 4,
                               allow_fix=True, allow_const_leaves=True,
                               profile=draw(st.sampled_from(["small", "small", "small", "large", "huge"]))))
    lv = oracle.spec_leaves(c["model"])
    ids = sorted(lv)
    dl = []
    if draw(st.booleans()):
        for i in ids:
            lo, hi = lv[i]
            dl.append([draw(st.sampled_from([0, 0, 1])), draw(st.integers(lo, hi))])
        c["dc"] = [list(t) for t in draw(st.lists(st.tuples(st.integers(0, 30), st.integers(0, 1)), max_size=2))]
    else:
        dl = [[0, 0] for _ in ids]
        c["dc"] = []
    c["dl"] = dl
    return c


@st.composite
def reduce_twins_case(draw, tier):
    """siblings that look different but REDUCE to the same content: each is a threshold over the same free core leaves
    plus its own fixed leaves, with its value shifted by the sum of its constants (All(core + ones), Any(core + zeros),
    AtLeast(t + s, core + constants summing to s)); next to them an integer leaf and/or a boolean under one parent"""
    core = [{"k": "leaf", "id": i, "b": [0, 1]} for i in ["b", "c"][:draw(st.integers(1, 2))]]
    if draw(st.integers(0, 3)) == 0:
        core.append({"k": "leaf", "id": "m", "b": list(draw(st.sampled_from([(0, 2), (-1, 1)])))})
    tau = draw(st.integers(1, len(core)))
    sibs = []
    for j in range(draw(st.integers(2, 3))):
        form = draw(st.sampled_from(["atleast", "atleast", "all", "any"]))
        consts = []
        if form == "all" and tau == len(core) and all(l["b"] == [0, 1] for l in core):
            for i in range(draw(st.integers(0, 2))):
                consts.append({"k": "leaf", "id": "one%d%d" % (j, i), "b": [1, 1]})
            node = {"k": "All", "id": "S%d" % j, "c": core + consts}
        elif form == "any" and tau == 1:
            for i in range(draw(st.integers(0, 2))):
                consts.append({"k": "leaf", "id": "zero%d%d" % (j, i), "b": [0, 0]})
            node = {"k": "Any", "id": "S%d" % j, "c": core + consts}
        else:
            ssum = 0
            for i in range(draw(st.integers(0, 2))):
                v = draw(st.sampled_from([0, 1, 1, 2, -1]))
                ssum += v
                consts.append({"k": "leaf", "id": "k%d%d" % (j, i), "b": [v, v]})
            node = {"k": "AtLeast", "v": tau + ssum, "s": 1, "id": "S%d" % j, "c": core + consts}
        sibs.append(node)
    kids = list(sibs)
    if draw(st.integers(0, 3)) > 0:
        kids.append({"k": "leaf", "id": "q", "b": list(draw(st.sampled_from([(0, 3), (0, 2), (-2, 2), (-1, 1)])))})
    if draw(st.booleans()):
        kids.append({"k": "leaf", "id": "z", "b": [0, 1]})
    n = len(kids)
    parent = {"k": "AtLeast", "v": draw(st.sampled_from([1, n, n, n - 1, 2, n + 1])), "s": draw(st.sampled_from([1, 1, -1])), "id": draw(st.sampled_from(["M", None])), "c": kids}
    if parent["s"] == -1:
        parent["v"] = -draw(st.integers(0, n))
    return {"model": parent, "points": None, "dl": [], "dc": []}


@st.composite
def wide_fixed_case(draw, tier):
    """one node with MANY children (around 64 / 128 / 256), either sign, 1-3 of them fixed by their bounds to non-zero
    constants (booleans at 1, an integer at 2 or -1), the node still undecided; free leaves are set so that the number
    of ones lands just below / at / just above the threshold"""
    n = draw(st.sampled_from([17, 33, 63, 64, 65, 66, 100, 128, 129, 130, 200, 257]))
    kids = [{"k": "leaf", "id": "o%03d" % i, "b": [0, 1]} for i in range(n)]
    fixed_at = draw(st.lists(st.integers(0, n - 1), min_size=1, max_size=3, unique=True))
    const_sum = 0
    for j, pos in enumerate(fixed_at):
        v = draw(st.sampled_from([1, 1, 1, 0, 2, -1]))
        kids[pos]["b"] = [v, v]
        const_sum += v
    if draw(st.integers(0, 2)) == 0:
        kids.append({"k": "Any", "id": draw(st.sampled_from(["G", None])), "c": [{"k": "leaf", "id": "g0", "b": [0, 1]}, {"k": "leaf", "id": "g1", "b": [0, 1]}]})
    kind = draw(st.sampled_from(["AtMost", "AtMost", "AtLeast", "AtLeast-", "Xor"]))
    k = draw(st.sampled_from([1, 2, 3, n // 2, const_sum + 1, const_sum + 2]))
    if kind == "AtMost":
        node = {"k": "AtMost", "v": max(k, const_sum), "id": "limit", "c": kids}
    elif kind == "AtLeast":
        node = {"k": "AtLeast", "v": k, "s": 1, "id": "need", "c": kids}
    elif kind == "AtLeast-":
        node = {"k": "AtLeast", "v": -max(k, const_sum), "s": -1, "id": "cap", "c": kids}
    else:
        node = {"k": "Xor", "id": "one", "c": kids}
    extra = [{"k": "Any", "id": "E", "c": [{"k": "leaf", "id": "e0", "b": [0, 1]}, {"k": "leaf", "id": "e1", "b": [0, 1]}]}]
    root = {"k": "All", "id": "M", "c": [node] + extra} if draw(st.booleans()) else node
    lv = oracle.spec_leaves(root)
    ids = sorted(lv)
    free = [i for i in ids if lv[i][0] != lv[i][1]]
    pts = []
    for ones in sorted({0, 1, 2, max(0, k - const_sum - 1), max(0, k - const_sum), k - const_sum + 1, k, len(free)}):
        ones = min(max(ones, 0), len(free))
        for rot in (0, draw(st.integers(0, max(0, len(free) - 1)))):
            chosen = {free[(rot + q) % len(free)] for q in range(ones)} if free else set()
            pts.append([(lv[i][1] if i in chosen else lv[i][0]) for i in ids])
    return {"model": root, "points": pts, "dl": [], "dc": []}


def check(case, ev):
    spec = case["model"]
    m = common.build_valid(case, ev)
    if m is None:
        return
    lv = oracle.leaves(m)
    comps = oracle.compounds(m)
    if any(i in lv for i in comps):
        ev.count("discarded_by_reference_atom")
        return
    sids = sorted(oracle.spec_leaves(spec))
    cids = sorted(comps)
    D = {}
    overrides = {}
    fixed_leaf = {i: lo for i, (lo, hi) in lv.items() if lo == hi}
    for i, (mode, a) in zip(sids, case["dl"]):
        if mode and i in lv:
            D[i] = a
            fixed_leaf[i] = a
    pre_fixed = {i for i, n in comps.items() if n.variable.bounds.lower == n.variable.bounds.upper}
    for k, val in case["dc"]:
        cid = cids[k % len(cids)]
        if cid == m.id or cid in pre_fixed:
            continue
        overrides[cid] = val
        D[cid] = val
    subject = build.model(spec)
    if D:
        subject = call(subject.assume, dict(D), what="assume")
        if oracle.is_leaf(subject):
            ev.count("assume_collapsed_to_variable")
            return
    red = call(subject.reduce, what="reduce()")
    free = {i: b for i, b in lv.items() if i not in fixed_leaf}
    # structural clauses
    single_const = oracle.is_leaf(red)
    if single_const:
        if red.bounds.lower != red.bounds.upper:
            raise Violation(f"reduce() returned a bare variable with non-constant bounds {red}")
    else:
        for x in oracle.walk(red):
            if x.bounds.lower == x.bounds.upper:
                raise Violation(f"reduced model still contains {'variable' if oracle.is_leaf(x) else 'sub-proposition'} "
                                f"{x.id!r} with constant bounds {oracle.bounds_tuple(x.bounds)}")
        rl = oracle.leaves(red)
        for i, b in rl.items():
            if i not in free:
                raise Violation(f"reduced model has leaf {i!r} which is not a free leaf of the input (free: {sorted(free)})")
            if b != free[i]:
                raise Violation(f"reduced model changed bounds of free leaf {i!r}: {b} vs {free[i]}")
    # meaning
    ids = sorted(lv)
    seen = set()
    n = 0
    vals = set()
    for env0 in common.assignments(case, lv):
        env = dict(env0)
        env.update(fixed_leaf)
        key = tuple(env[i] for i in ids)
        if key in seen:
            continue
        seen.add(key)
        n += 1
        want = oracle.obj_value(m, env, overrides)
        vals.add(want)
        if single_const:
            got = int(red.bounds.lower)
        else:
            got = oracle.obj_value(red, env)
        if got != want:
            raise Violation(f"reduced model evaluates to {got}, unreduced model with constants substituted to {want}, "
                            f"on free interpretation { {i: env[i] for i in free} } (fixed: {fixed_leaf}, assumed nodes: {overrides})")
        if n <= 3 and not single_const:
            pe = oracle.bounds_tuple(call(red.evaluate, {i: env[i] for i in free}, what="reduced.evaluate"))
            if pe != (want, want):
                raise Violation(f"reduced.evaluate()={pe}, expected constant {want} on { {i: env[i] for i in free} }")
    ev.count("interpretations", n)
    # non-trivial classification
    nt = single_const and bool(free)
    removed_nonzero = any(v != 0 for v in fixed_leaf.values()) or any(v != 0 for v in overrides.values()) or \
        any(comps[i].variable.bounds.lower != 0 for i in pre_fixed)
    neg_parent = any(int(n_.sign) == -1 and any(c.id in fixed_leaf or c.id in overrides or c.id in pre_fixed for c in n_.propositions)
                     for n_ in comps.values())
    cl = common.model_classes(spec, m)
    if fixed_leaf:
        cl.append("fixed_leaf")
    if pre_fixed:
        cl.append("prefixed_node")
    if D:
        cl.append("after_assume")
    if single_const:
        cl.append("collapsed_to_constant")
    if neg_parent:
        cl.append("constant_under_negative_parent")
    if removed_nonzero:
        cl.append("nonzero_constant")
    has_const = bool(fixed_leaf or pre_fixed or overrides)
    ev.case(case, has_const and (nt or removed_nonzero or neg_parent), cl)


def shapes(slice_i, n):
    """every small shape with one leaf fixed by its bounds (boolean a at 0 / 1, integer t at -2 / 0 / 2)"""
    for spec in S.small_shapes(slice_i, n):
        for leaf, val in (("a", 1), ("a", 0), ("t", -2), ("t", 2), ("b", 1)):
            yield {"model": S.with_fixed_leaf(spec, leaf, val), "points": None, "dl": [], "dc": []}


def empty(slice_i, n):
    """groups without sub-propositions, alone and inside every connective"""
    from vf import strategies as S_
    for spec in S_.empty_shapes(slice_i, n):
        yield {"model": spec, "points": None, "dl": [], "dc": []}

def big_constants(tier):
    """ENUMERATED: a node that STAYS undecided although one of its leaves is fixed at a value beyond the 16-bit default range
    of integer variables (or beyond 32 bits) - the threshold is the constant plus a little - fixed by its bounds or by
    assume(), under either sign, alone and under a parent"""
    L = lambda i: {"k": "leaf", "id": i, "b": [0, 1]}
    for c_ in (32767, 32768, 40000, 100000, -32768, -32769, -50000, 3_000_000_000, -2 ** 31 - 7):
        for how in ("bounds", "assume"):
            t = {"k": "leaf", "id": "t", "b": [c_, c_] if how == "bounds" else [min(0, c_) - 1, max(0, c_) + 1]}
            for node in ({"k": "AtLeast", "id": "B", "v": c_ + 1, "s": 1, "c": [t, L("u"), {"k": "leaf", "id": "w", "b": [0, 2]}]},
                         {"k": "AtLeast", "id": "B", "v": -c_ - 1, "s": -1, "c": [t, L("u"), {"k": "leaf", "id": "w", "b": [0, 2]}]},
                         {"k": "AtMost", "id": "B", "v": c_ + 1, "c": [t, L("u"), L("x")]}):
                for spec in (node, {"k": "All", "id": "A", "c": [node, L("z")]}, {"k": "Any", "id": "A", "c": [{"k": "Not", "c": [node]}, L("z")]}):
                    sids = sorted(oracle.spec_leaves(spec))
                    yield {"model": spec, "points": None, "dl": [[1, c_] if (i == "t" and how == "assume") else [0, 0] for i in sids], "dc": []}


def parts(tier):
    return [Part("big_constants", enumerate_cases=big_constants, check=check, time_quick=120.0), Part("wide_fixed", strategy=lambda t: wide_fixed_case(t), check=check, quick=(2, 40), thorough=(4, 500)), Part("scale", strategy=lambda t: __import__("vf.strategies", fromlist=["x"]).scale_case(allow_const=True).map(lambda c: dict(c, dl=[], dc=[])), check=check, quick=(2, 40), thorough=(4, 600)), Part("empty0", enumerate_cases=(lambda t: empty(0, 1)), check=check, time_quick=120.0), Part("empty1", enumerate_cases=(lambda t: ({"model": S.with_fixed_leaf(c_["model"], "b", 1), "points": None, "dl": [], "dc": []} for c_ in empty(0, 1))), check=check, time_quick=120.0), Part("reduce_twins", strategy=lambda t: reduce_twins_case(t), check=check, quick=(2, 300), thorough=(4, 4000))] + [Part("wide_nodes", strategy=lambda t: __import__("vf.strategies", fromlist=["x"]).wide_case(allow_const=True).map(lambda c: dict(c, dl=[], dc=[])), check=check, quick=(2, 150), thorough=(4, 2000))] + [Part("shapes%d" % i, enumerate_cases=(lambda t, i=i: shapes(i, 6)), check=check, time_quick=120.0) for i in range(6)] + [Part("reduce", strategy=lambda t: case_strategy(t), check=check, quick=(8, 350), thorough=(16, 2500))]
