"""Generators and exact oracles shared by the polyhedron properties C11 / C12.

Everything the oracle computes is done in Python ints (or exact int <-> float comparisons on small
values).  Three ways of knowing the integer solution set S of  A.x >= b  inside the variable box:

  mode "E"  the whole box is enumerated                                   (box <= guard points)
  mode "I"  all columns but the widest one are enumerated; for the widest
            column the rows leave an *interval*, computed with exact integer
            ceil/floor division                                            (rest of the box <= guard)
  mode "P"  several wide columns: only individual points are decided. Points come
            from the case (drawn by Hypothesis) and from scipy.optimize.milp; milp is
            used purely as a generator - every point is re-verified in Python ints.

A solution set is represented as  dict  key -> None (mode E)  |  key -> [(lo, hi), ...] (mode I)
where key is the tuple of the values of the enumerated columns (in column order).
"""
import itertools

from hypothesis import strategies as st

from vf import build, strategies as S
from vf.core import digest as core_digest
from vf.core import Violation, call

COL_IDS = ["a", "b", "c", "d", "e", "x", "y", "z", "p", "q"]
ROW_IDS = ["r0", "r1", "r2", "r3", "r4", "r5", "r6", "r7"]
INT_MIN, INT_MAX = -32768, 32767      # the library's default integer range (statement domain)


# ------------------------------------------------------------------------------------------------
# generators
# ------------------------------------------------------------------------------------------------

def _small_bounds(draw):
    k = draw(st.integers(0, 19))
    if k < 8:
        return [0, 1]
    if k < 14:                                    # small range, negative lower bounds included
        lo = draw(st.integers(-4, 3))
        return [lo, lo + draw(st.integers(1, 5))]
    if k < 17:                                    # strictly negative range
        hi = draw(st.integers(-4, -1))
        return [hi - draw(st.integers(1, 3)), hi]
    c = draw(st.integers(-3, 3))                  # degenerate
    return [c, c]


def _wide_bounds(draw):
    kind = draw(st.integers(0, 4))
    if kind == 0:
        return [INT_MIN, draw(st.integers(INT_MIN, INT_MAX))]
    if kind == 1:
        return [draw(st.integers(INT_MIN, INT_MAX)), INT_MAX]
    if kind == 2:
        return [INT_MIN, INT_MAX]
    if kind == 3:
        lo = draw(st.integers(-300, 100))
        return [lo, lo + draw(st.integers(50, 2000))]
    lo = draw(st.integers(INT_MIN, INT_MAX))
    return [lo, draw(st.integers(lo, INT_MAX))]


def _coef(draw, nonunit):
    k = draw(st.integers(0, 19))
    z, u, s = (4, 8, 18) if nonunit else (6, 14, 19)
    if k < z:
        return 0
    sign = draw(st.sampled_from([1, -1]))
    if k < u:
        return sign
    if k < s:
        return sign * draw(st.integers(2, 9))
    return sign * draw(st.one_of(st.integers(10, 60), st.integers(10, 10000)))


def row_min(a, bounds):
    return sum(min(c * lo, c * hi) for c, (lo, hi) in zip(a, bounds) if c)


def row_max(a, bounds):
    return sum(max(c * lo, c * hi) for c, (lo, hi) in zip(a, bounds) if c)


def prod(xs):
    n = 1
    for x in xs:
        n *= x
    return n


def choose_mode(bounds, guard):
    sizes = [hi - lo + 1 for lo, hi in bounds]
    total = prod(sizes)
    if total <= guard:
        return "E", None
    w = max(range(len(sizes)), key=lambda j: sizes[j])
    if total // sizes[w] <= guard:
        return "I", w
    return "P", None


@st.composite
def system_case(draw, profile="small", nonunit=False, guard=4096, max_rows=5, max_cols=5):
    """{"m": [[b, a1..an]...], "vars": [[id, lo, hi]...], "index": [ids]|None, "guard": int,
        "points": [[x1..xn]...] (only when the box needs mode "P")}"""
    nc = draw(st.integers(1, max_cols))
    nr = draw(st.integers(1, max_rows))
    ids = list(draw(st.permutations(COL_IDS)))[:nc]
    bounds = [_small_bounds(draw) for _ in range(nc)]
    if profile == "wide":
        nw = min(nc, draw(st.sampled_from([1, 1, 1, 1, 2, 2, 3])))
        for j in list(draw(st.permutations(range(nc))))[:nw]:
            bounds[j] = _wide_bounds(draw)
    # witness point biased to the corners of the box
    wit = []
    for lo, hi in bounds:
        k = draw(st.integers(0, 4))
        wit.append(lo if k < 2 else hi if k < 4 else draw(st.integers(lo, hi)))
    m = []
    for _ in range(nr):
        a = [_coef(draw, nonunit) for _ in range(nc)]
        if not any(a) and draw(st.integers(0, 7)) > 0:
            a[draw(st.integers(0, nc - 1))] = draw(st.sampled_from([1, -1, 2, -3]))
        lo_r, hi_r = row_min(a, bounds), row_max(a, bounds)
        wv = sum(c * x for c, x in zip(a, wit))
        k = draw(st.integers(0, 19))
        if k < 7:
            b = wv - draw(st.integers(0, 3))          # holds at the witness, little slack
        elif k < 10:
            b = hi_r - draw(st.integers(0, 2))        # close to the row maximum: forces columns
        elif k < 13:
            b = lo_r + draw(st.integers(-1, 2))       # close to the row minimum: reducible rows
        elif k < 17:
            b = draw(st.integers(lo_r, hi_r))
        elif k < 19:
            b = wv + draw(st.integers(1, 3))          # violated by the witness
        else:
            b = hi_r + draw(st.integers(1, 2))        # infeasible row
        m.append([b] + a)
    index = None
    if draw(st.integers(0, 5)) > 0:
        index = list(draw(st.permutations(ROW_IDS)))[:nr]
    case = {"m": m, "vars": [[i, lo, hi] for i, (lo, hi) in zip(ids, bounds)], "index": index, "guard": guard}
    if choose_mode(bounds, guard)[0] == "P":
        n = draw(st.integers(6, 14))
        strat = st.tuples(*[S.near([x], lo, hi) for x, (lo, hi) in zip(wit, bounds)])
        case["points"] = [list(wit)] + [list(p) for p in draw(st.lists(strat, min_size=n, max_size=n))]
    return case


@st.composite
def model_poly_case(draw, guard=4096, wide=False):
    """{"model": spec, "active": bool, "guard": int} - polyhedron obtained from a logic model"""
    if wide:
        spec = draw(S.model_spec(depth=2, profile="large", max_bool=4, max_int=1, min_leaves=2))
    else:
        spec = draw(S.model_spec(depth=2, profile="small", max_bool=4, max_int=2, min_leaves=1))
    return {"model": spec, "active": draw(st.integers(0, 3)) > 0, "guard": guard}


# ------------------------------------------------------------------------------------------------
# case -> puan objects + plain description
# ------------------------------------------------------------------------------------------------

class System:
    """plain description of the polyhedron the case stands for"""

    def __init__(self, poly, col_ids, bounds, rows, index_ids, classes):
        self.poly = poly
        self.col_ids = col_ids          # ids of the A columns
        self.bounds = bounds            # [(lo, hi)] of the A columns
        self.rows = rows                # [(b, [a...])] in Python ints
        self.index_ids = index_ids      # ids of the rows
        self.classes = classes
        self.nrows = len(rows)
        self.ncols = len(bounds)


def plain_rows(poly):
    """(b, [a..]) rows in Python numbers from any 2-D puan array"""
    import numpy as np
    arr = np.asarray(poly)
    if arr.ndim != 2:
        raise Violation(f"polyhedron is not 2-dimensional: shape {arr.shape}")
    return [(r[0], list(r[1:])) for r in arr.tolist()]


def var_triples(variables):
    return [(v.id, int(v.bounds.lower), int(v.bounds.upper)) for v in variables]


def materialize(case, ev):
    """Returns a System or None (discarded; already counted)."""
    if "model" in case:
        m = call(build.model, case["model"], what="constructing the model")
        if call(m.errors, what="errors()"):
            ev.count("discarded_invalid_model")
            return None
        poly = call(m.to_ge_polyhedron, bool(case.get("active", True)), what="to_ge_polyhedron")
        rows = plain_rows(poly)
        tr = var_triples(poly.variables[1:])
        if not rows or not tr:
            ev.count("discarded_empty_polyhedron")
            return None
        for _, lo, hi in tr:
            if lo < INT_MIN or hi > INT_MAX or lo > hi:
                ev.count("discarded_bounds_outside_int16")
                return None
        classes = ["model_derived", "model_active" if case.get("active", True) else "model_inactive"]
        return System(poly, [t[0] for t in tr], [(t[1], t[2]) for t in tr], rows, [v.id for v in poly.index], classes)
    spec = dict(case)
    mx = max([abs(int(x)) for r in case["m"] for x in r] + [0])
    pick = int(core_digest(case), 16) % 4
    if case.get("dtype"):
        spec["dtype"] = case["dtype"]
    elif pick == 1 and mx <= 32767:
        spec["dtype"] = "int16"
    elif pick == 2 and mx <= 2 ** 31 - 1:
        spec["dtype"] = "int32"
    # some column variables are declared with the dtype argument next to their bounds: variable(id, (lo, hi), dtype="int")
    h = int(core_digest(case), 16) // 4
    spec["vars"] = [list(v[:3]) + (["int"] if (h + 3 * j) % 5 == 0 else ["bool"] if (h + 3 * j) % 5 == 1 and (v[1], v[2]) == (0, 1) else [])
                    for j, v in enumerate(case["vars"])]
    if (h // 7) % 4 == 0:
        spec["support"] = "plain"           # the support column labelled by a plain boolean variable
    poly = call(build.polyhedron, spec, what="constructing the polyhedron")
    rows = [(r[0], list(r[1:])) for r in case["m"]]
    index_ids = list(case["index"]) if case.get("index") else list(range(len(rows)))
    classes = ["explicit_index" if case.get("index") else "default_index", "matrix_dtype=" + spec.get("dtype", "int64")]
    return System(poly, [v[0] for v in case["vars"]], [(v[1], v[2]) for v in case["vars"]], rows, index_ids, classes)


def system_classes(sy):
    cl = list(sy.classes)
    coefs = [c for _, a in sy.rows for c in a]
    if any(abs(c) > 1 for c in coefs):
        cl.append("nonunit_coef")
    if any(abs(c) >= 10 for c in coefs):
        cl.append("bigM_coef")
    if any(lo < 0 for lo, hi in sy.bounds):
        cl.append("negative_lower_bound")
    if any(lo == hi for lo, hi in sy.bounds):
        cl.append("degenerate_column")
    if any((lo, hi) == (0, 1) for lo, hi in sy.bounds):
        cl.append("boolean_column")
    if any(hi - lo > 1 and hi - lo <= 20 for lo, hi in sy.bounds):
        cl.append("small_int_column")
    if any(hi - lo > 1000 for lo, hi in sy.bounds):
        cl.append("wide_column")
    if any(not any(a) for _, a in sy.rows):
        cl.append("zero_row")
    return cl


# ------------------------------------------------------------------------------------------------
# exact oracles
# ------------------------------------------------------------------------------------------------

def holds(rows, x):
    for b, a in rows:
        s = 0
        for c, v in zip(a, x):
            if c:
                s += c * v
        if s < b:
            return False
    return True


def in_box(bounds, x):
    return len(x) == len(bounds) and all(lo <= v <= hi for v, (lo, hi) in zip(x, bounds))


def solset(rows, bounds, w=None):
    """All integer solutions inside the box.  w = index of the interval column or None."""
    n = len(bounds)
    others = [j for j in range(n) if j != w]
    out = {}
    rngs = [range(bounds[j][0], bounds[j][1] + 1) for j in others]
    if w is None:
        for p in itertools.product(*rngs):
            if holds(rows, p):
                out[p] = None
        return out
    split = [(b, [a[j] for j in others], a[w]) for b, a in rows]
    for p in itertools.product(*rngs):
        lo, hi = bounds[w]
        for b, ao, aw in split:
            t = b
            for c, v in zip(ao, p):
                if c:
                    t -= c * v
            # aw * x_w >= t
            if aw > 0:
                lo = max(lo, -((-t) // aw))          # ceil(t / aw)
            elif aw < 0:
                hi = min(hi, t // aw)                # floor(t / aw)   (dividing by a negative flips >=)
            elif t > 0:
                lo, hi = 1, 0
            if lo > hi:
                break
        if lo <= hi:
            out[p] = [(lo, hi)]
    return out


def merge_intervals(iv):
    iv = sorted(iv)
    out = []
    for lo, hi in iv:
        if out and lo <= out[-1][1] + 1:
            if hi > out[-1][1]:
                out[-1] = (out[-1][0], hi)
        else:
            out.append((lo, hi))
    return out


def project(sol, n, w, keep):
    """Projection of a solution set onto the columns ``keep`` (ascending list of column indices)."""
    ks = set(keep)
    others = [j for j in range(n) if j != w]
    pos = [i for i, j in enumerate(others) if j in ks]
    keep_w = w is not None and w in ks
    out = {}
    for key, iv in sol.items():
        k2 = tuple(key[i] for i in pos)
        if keep_w:
            out.setdefault(k2, []).extend(iv)
        else:
            out[k2] = None
    if keep_w:
        for k2 in out:
            out[k2] = merge_intervals(out[k2])
    return out


def column_range(sol, n, w):
    """per column (min, max) over a non-empty solution set"""
    others = [j for j in range(n) if j != w]
    res = [None] * n
    for i, j in enumerate(others):
        vals = [key[i] for key in sol]
        res[j] = (min(vals), max(vals))
    if w is not None:
        res[w] = (min(lo for iv in sol.values() for lo, _ in iv), max(hi for iv in sol.values() for _, hi in iv))
    return res


def n_solutions(sol, w):
    if w is None:
        return len(sol)
    return sum(hi - lo + 1 for iv in sol.values() for lo, hi in iv)


def row_always_holds(row, bounds, fixed, guard):
    """Does the row hold on every box point whose columns in ``fixed`` (j -> value) have that value?
    Enumerates the columns the row mentions when that is small, exact closed form otherwise.
    (No such point - a fixed value outside its bounds - means vacuously yes.)"""
    b, a = row
    for j, v in fixed.items():
        lo, hi = bounds[j]
        if not (lo <= v <= hi) or v != int(v):
            return True
    cols = [j for j, c in enumerate(a) if c]
    eff = [(int(fixed[j]), int(fixed[j])) if j in fixed else bounds[j] for j in cols]
    if prod(hi - lo + 1 for lo, hi in eff) <= guard:
        for p in itertools.product(*[range(lo, hi + 1) for lo, hi in eff]):
            if sum(a[j] * v for j, v in zip(cols, p)) < b:
                return False
        return True
    return sum(min(a[j] * lo, a[j] * hi) for j, (lo, hi) in zip(cols, eff)) >= b


class _quiet_fds:
    """HiGHS occasionally printf()s debug lines; keep them out of the check's output."""

    def __enter__(self):
        import os
        import sys
        self.saved = []
        try:
            sys.stdout.flush()
            sys.stderr.flush()
            null = os.open(os.devnull, os.O_WRONLY)
            for fd in (1, 2):
                self.saved.append((fd, os.dup(fd)))
                os.dup2(null, fd)
            os.close(null)
        except OSError:
            pass
        return self

    def __exit__(self, *exc):
        import os
        for fd, keep in self.saved:
            try:
                os.dup2(keep, fd)
                os.close(keep)
            except OSError:
                pass
        return False


def milp_point(rows, bounds, objective, ev):
    """scipy's MILP solver as a *generator* of one candidate point; returns an exactly re-verified
    integer solution inside the box or None."""
    n = len(bounds)
    if n == 0:
        return None
    try:
        import numpy as np
        from scipy.optimize import milp, LinearConstraint, Bounds
        kw = {}
        if rows:
            kw["constraints"] = LinearConstraint(np.array([[float(c) for c in a] for _, a in rows]),
                                                 np.array([float(b) for b, _ in rows]), np.inf)
        with _quiet_fds():
            res = milp(c=np.array([float(c) for c in objective]), integrality=np.ones(n),
                       bounds=Bounds([float(lo) for lo, _ in bounds], [float(hi) for _, hi in bounds]),
                       options={"node_limit": 400, "time_limit": 10.0, "disp": False}, **kw)
        if res.x is None:
            ev.count("milp_no_point")
            return None
        x = [int(round(float(v))) for v in res.x]
    except Exception:  # noqa - the solver is only a generator
        ev.count("milp_failed")
        return None
    if in_box(bounds, x) and holds(rows, x):
        ev.count("milp_points")
        return x
    ev.count("milp_point_rejected")
    return None


def unit(j, n, s=1):
    return [s if i == j else 0 for i in range(n)]


# ------------------------------------------------------------------------------------------------
# library calls with a CPU-time watchdog
# ------------------------------------------------------------------------------------------------

class _Hang(BaseException):
    pass


_CPU_LIMIT = [20.0]     # seconds of *process CPU time* (not wall clock, so machine load cannot trigger it)


def bounded(fn, *a, what="call", **kw):
    """``core.call`` plus a watchdog: the fix-point loop of reducable_rows_and_columns is a Python
    ``while`` that can spin for ever when reduce_rows/reduce_columns remove the wrong thing; the
    calls normally take ~1 ms, so 20 s of CPU inside one call is reported as a violation
    (2 s once a first hang was seen in this process, to keep shrinking affordable)."""
    import signal
    fired = []

    def on_alarm(signum, frame):
        fired.append(1)
        raise _Hang()

    try:
        old = signal.signal(signal.SIGVTALRM, on_alarm)
    except (ValueError, OSError, AttributeError):      # not in the main thread / not available
        return call(fn, *a, what=what, **kw)
    try:
        signal.setitimer(signal.ITIMER_VIRTUAL, _CPU_LIMIT[0])
        try:
            return call(fn, *a, what=what, **kw)
        finally:
            signal.setitimer(signal.ITIMER_VIRTUAL, 0)
    except BaseException:       # core.call may already have wrapped the _Hang
        if fired:
            limit = _CPU_LIMIT[0]
            _CPU_LIMIT[0] = 2.0
            raise Violation(f"{what} did not return within {limit:g} s of CPU time (non-terminating loop?)")
        raise
    finally:
        signal.signal(signal.SIGVTALRM, old if old is not None else signal.SIG_DFL)


# ------------------------------------------------------------------------------------------------
# reading puan results
# ------------------------------------------------------------------------------------------------

def as_list(v, what, size=None):
    import numpy as np
    arr = np.asarray(v)
    if size is not None and arr.shape != tuple(size):
        raise Violation(f"{what} has shape {arr.shape}, expected {tuple(size)}")
    return arr.tolist()


def forced_list(vec):
    """NaN -> None"""
    return [None if x != x else x for x in vec]


# ------------------------------------------------------------------------------------------------ larger shapes
@st.composite
def chain_case(draw, guard=4096):
    """implication chains (x0 >= 1, x1 >= x0, x2 >= x1, ...) - several propagation rounds, one redundant row per round -
    interleaved with unrelated rows; boolean and small integer columns, at most 9 columns, rows in a drawn order"""
    k = draw(st.integers(3, 5))
    extra_cols = draw(st.integers(2, 4))
    nc = k + extra_cols
    ids = list(draw(st.permutations(COL_IDS)))[:nc] if len(COL_IDS) >= nc else ["v%d" % i for i in range(nc)]
    bounds = [(0, 1)] * nc
    if draw(st.integers(0, 2)) == 0:
        j = draw(st.integers(k, nc - 1))
        bounds[j] = draw(st.sampled_from([(0, 2), (-1, 1), (0, 3)]))
    rows = []
    start = draw(st.sampled_from([1, 1, 1, 0]))
    r0 = [0] * nc
    r0[0] = 1
    rows.append([start] + r0)
    for i in range(k - 1):
        r = [0] * nc
        r[i], r[i + 1] = -1, 1
        rows.append([0] + r)
    for _ in range(draw(st.integers(1, 3))):
        r = [0] * nc
        cols = draw(st.lists(st.integers(k, nc - 1), min_size=1, max_size=min(3, extra_cols), unique=True))
        for c in cols:
            r[c] = draw(st.sampled_from([1, 1, -1, 2]))
        if draw(st.integers(0, 3)) == 0:
            r[draw(st.integers(0, k - 1))] = draw(st.sampled_from([1, -1]))
        rows.append([draw(st.integers(-1, 2))] + r)
    rows = list(draw(st.permutations(rows)))
    index = list(draw(st.permutations(ROW_IDS)))[:len(rows)] if draw(st.booleans()) and len(ROW_IDS) >= len(rows) else None
    return {"m": rows, "vars": [[i, lo, hi] for i, (lo, hi) in zip(ids, bounds)], "index": index, "guard": guard}


@st.composite
def narrow_overflow_case(draw):
    """a polyhedron held in int16 / int32 whose entries all fit that type, with one column forced to the far end of its range
    by a single-variable row; moving the forced column into the support vector of another row (b - c*v) leaves the range
    of the storage type although every given entry is inside it"""
    dtype = draw(st.sampled_from(["int16", "int16", "int32"]))
    T = 32767 if dtype == "int16" else 2 ** 31 - 1
    L = draw(st.integers(2, 200))
    neg = draw(st.booleans())
    xb = (-L, 0) if neg else (0, L)
    v = -L if neg else L
    c_abs = draw(st.integers(max(1, T // (2 * L)), T // L))
    c = c_abs if neg else -c_abs                       # c * v is negative, so b - c*v grows
    b0 = draw(st.integers(T // 3, T))
    n_other = draw(st.integers(1, 3))
    ob = [draw(st.sampled_from([(0, 1), (0, 1), (0, 2), (-1, 1)])) for _ in range(n_other)]
    big = b0 + c_abs * L
    od = [draw(st.one_of(st.integers(1, T), st.integers(max(1, big // (2 * n_other)), min(T, max(1, big))))) for _ in range(n_other)]
    nc = 1 + n_other
    rows = [[L] + ([-1] if neg else [1]) + [0] * n_other,            # forces x to v
            [b0, c] + od]
    for _ in range(draw(st.integers(0, 2))):
        r = [draw(st.integers(-2, 2)) for _ in range(nc)]
        r[0] = 0 if draw(st.booleans()) else r[0]
        rows.append([draw(st.integers(-2, 1))] + r)
    perm = list(draw(st.permutations(range(nc))))
    rows = [[r[0]] + [r[1 + j] for j in perm] for r in rows]
    bounds = [[xb] + ob][0]
    bounds = [bounds[j] for j in perm]
    rows = list(draw(st.permutations(rows)))
    ids = list(draw(st.permutations(COL_IDS)))[:nc]
    return {"m": rows, "vars": [[i, lo, hi] for i, (lo, hi) in zip(ids, bounds)], "index": None, "guard": 4096, "dtype": dtype}


@st.composite
def exact_division_case(draw):
    """rows whose tightened bound is an EXACT quotient: a*x + others >= b with b chosen so that (b - max(others)) / a is an
    integer inside x's declared range, for every coefficient magnitude 2..130 and both signs (a float short cut such as
    multiplying by 1/a is off by one ulp for some of them)"""
    a_abs = draw(st.one_of(st.integers(2, 130), st.sampled_from([49, 75, 77, 91, 93, 98, 99, 103, 105, 107])))
    a = a_abs * draw(st.sampled_from([-1, -1, 1]))
    xb = draw(st.sampled_from([(0, 1), (0, 5), (-10, 10), (0, 20), (-3, 3), (1, 16)]))
    n_other = draw(st.integers(0, 2))
    ob = [draw(st.sampled_from([(0, 1), (0, 1), (0, 3), (-2, 2)])) for _ in range(n_other)]
    oc = [draw(st.sampled_from([1, 2, -1, 3, -2, 7])) for _ in range(n_other)]
    omax = sum(max(cc * lo, cc * hi) for cc, (lo, hi) in zip(oc, ob))
    q = draw(st.integers(xb[0], xb[1]))
    b = a * q + omax                  # x <= q (a < 0) resp. x >= q (a > 0), exactly
    rows = [[b, a] + oc]
    nc = 1 + n_other
    for _ in range(draw(st.integers(0, 2))):
        r = [draw(st.integers(-1, 1)) for _ in range(nc)]
        rows.append([draw(st.integers(-3, 0))] + r)
    perm = list(draw(st.permutations(range(nc))))
    rows = [[r[0]] + [r[1 + j] for j in perm] for r in rows]
    bounds = [[xb] + ob][0]
    bounds = [bounds[j] for j in perm]
    rows = list(draw(st.permutations(rows)))
    ids = list(draw(st.permutations(COL_IDS)))[:nc]
    return {"m": rows, "vars": [[i, lo, hi] for i, (lo, hi) in zip(ids, bounds)], "index": None, "guard": 4096}


@st.composite
def many_columns_case(draw):
    """60-130 columns; rows that use MANY of them, with small integer ranges next to booleans, so that the number of row
    combinations is large but still below 2^63 (3^k * 2^m); points are drawn (nothing can be enumerated)"""
    nc = draw(st.sampled_from([60, 62, 63, 64, 65, 80, 100, 130]))
    k3 = draw(st.integers(0, 14))
    bounds = [(0, 2) if j < k3 else (0, 1) for j in range(nc)]
    if draw(st.integers(0, 3)) == 0:
        bounds[nc - 1] = draw(st.sampled_from([(-20000, 20000), (-3, 3), (0, 4)]))
    order = list(draw(st.permutations(range(nc))))
    bounds = [bounds[j] for j in order]
    rows = []
    for _ in range(draw(st.integers(1, 3))):
        used = draw(st.sampled_from([nc, nc, nc // 2, 40, 5]))
        a = [0] * nc
        for j in list(draw(st.permutations(range(nc))))[:used]:
            a[j] = draw(st.sampled_from([1, 1, -1, 2]))
        import math
        # keep the true count below 2^63 (the statement's proviso for the count)
        while math.prod((hi - lo + 1) for c_, (lo, hi) in zip(a, bounds) if c_) >= 2 ** 62:
            j = next(j for j in range(nc) if a[j])
            a[j] = 0
        rows.append([draw(st.integers(-3, 5))] + a)
    ids = ["c%03d" % j for j in range(nc)]
    wit = [draw(st.sampled_from([lo, hi])) for lo, hi in bounds]
    n = draw(st.integers(6, 10))
    strat = st.tuples(*[S.near([x], lo, hi) for x, (lo, hi) in zip(wit, bounds)])
    pts = [list(wit)] + [list(p_) for p_ in draw(st.lists(strat, min_size=n, max_size=n))]
    return {"m": rows, "vars": [[i, lo, hi] for i, (lo, hi) in zip(ids, bounds)], "index": None, "guard": 4096, "points": pts}


@st.composite
def sparse_block_case(draw):
    """a LARGE sparse system (12-20 rows x 56-72 columns, i.e. >= 1000 entries, <= ~5% non-zero) whose rows use pairwise
    disjoint sets of 1-3 columns, so that the exact solution set is the product of small per-row solution sets"""
    nr = draw(st.integers(12, 20))
    nc = draw(st.integers(56, 72))
    bounds = []
    for _ in range(nc):
        bounds.append(draw(st.sampled_from([(0, 1), (0, 1), (0, 1), (0, 1), (0, 3), (-2, 2), (1, 1), (-3, 0)])))
    free = list(range(nc))
    m = []
    for _ in range(nr):
        w = min(draw(st.sampled_from([1, 2, 2, 3, 3])), len(free))
        cols = [free.pop(draw(st.integers(0, len(free) - 1))) for _ in range(w)]
        a = [0] * nc
        for c in cols:
            a[c] = draw(st.sampled_from([1, 1, -1, -1, 2, -2, 3, -3]))
        lo_r, hi_r = row_min(a, bounds), row_max(a, bounds)
        kind = draw(st.integers(0, 9))
        b = hi_r - draw(st.integers(0, 1)) if kind < 4 else (lo_r + draw(st.integers(0, 1)) if kind < 6 else
                                                             (hi_r + 1 if kind == 9 and draw(st.integers(0, 3)) == 0 else draw(st.integers(lo_r, hi_r))))
        m.append([b] + a)
    return {"m": m, "vars": [["c%d" % j, lo, hi] for j, (lo, hi) in enumerate(bounds)], "index": None, "sparse": True}


def block_truth(case):
    """per-column exact (min, max) over the solution set of a sparse_block_case, or None when some row is infeasible"""
    import itertools
    bounds = [(v[1], v[2]) for v in case["vars"]]
    rng = {j: (lo, hi) for j, (lo, hi) in enumerate(bounds)}
    for row in case["m"]:
        b, a = row[0], row[1:]
        cols = [j for j, c in enumerate(a) if c]
        sols = [p for p in itertools.product(*[range(bounds[j][0], bounds[j][1] + 1) for j in cols])
                if sum(a[j] * x for j, x in zip(cols, p)) >= b]
        if not sols:
            return None
        for i, j in enumerate(cols):
            vals = [p[i] for p in sols]
            rng[j] = (min(vals), max(vals))
    return rng
