"""C04 - Connectives have their documented truth functions."""
import itertools

from hypothesis import strategies as st

from vf import build, oracle, strategies as S
from vf.core import Part, Violation, call
from vf.props import common

PROPERTY = "C04"
RULE = ("(1) EXHAUSTIVE: every formula AST of nesting depth <=2 over leaves {a,b} with <=2 children per node built from "
        "All, Any, AtLeast(k in 1..2), AtMost(k in 0..2), Xor, ExactlyOne, XNor, Imply, Not is enumerated (8 slices run in "
        "parallel); (2) Hypothesis generates deeper ASTs (depth <=3/4, <=6 children, <=5 boolean leaves, shared sub-formulas, "
        "explicit and generated ids); each AST is realised through the Python constructors AND through plog.from_json of a "
        "hand-written JSON document; (3) Hypothesis generates rule dictionaries for Imply.from_cicJE (0-3 sub-conditions, "
        "ALL/ANY relations incl. defaulted, all five rule types). Oracle: textbook truth tables on 0/1 over the full "
        "assignment table. ASTs rejected by errors() (e.g. identical twin children) are discarded and counted. Non-trivial = "
        "a negating connective (Not/Imply/XNor) applied to a compound argument, or nesting depth >=2 (for rule "
        "dictionaries: >=2 sub-conditions); distinct = SHA-1 of the canonical case JSON.")
ASSUMPTIONS = ["AtLeast(k) is exercised as 'at least k' only with k>=1 or explicit sign=+1 (the constructor documents that "
               "value<=0 without sign selects the negative form)",
               "FORBIDS_ALL is read as 'none of the components' (Any(...).negate())"]

KINDS = ("All", "Any", "AtLeast", "AtMost", "Xor", "ExactlyOne", "XNor", "Imply", "Not")


# ------------------------------------------------------------------------------------------------ realisations
def to_json_doc(spec, shared=None, salt=0):
    """hand-written JSON form, as a user would write it for plog.from_json"""
    if "root" in spec:
        return to_json_doc(spec["root"], spec.get("shared", []))
    k = spec["k"]
    if k == "leaf":
        h = (len(spec["id"]) + ord(spec["id"][0]) + salt) % 3
        if h == 0:
            return {"id": spec["id"]}
        return {"type": "Variable" if h == 1 else "Proposition", "id": spec["id"]}
    if k == "ref":
        return to_json_doc(shared[spec["i"]], shared)
    ch = [to_json_doc(c, shared, salt + j) for j, c in enumerate(spec["c"])]
    d = {"type": k}
    if spec.get("id") is not None:
        d["id"] = spec["id"]
    if k == "Imply":
        d["condition"] = ch[0]
        d["consequence"] = ch[1]
    elif k == "Not":
        d["proposition"] = ch[0]
    else:
        d["propositions"] = ch
        if k in ("AtLeast", "AtMost"):
            d["value"] = spec["v"]
            if k == "AtLeast" and spec.get("id") is None and len(ch) % 2 == 0:
                del d["type"]      # documented fallback: no type + 'propositions' -> AtLeast
    return d


def json_expressible(spec):
    """AtLeast with explicit sign=+1 and value<=0 has no hand-written JSON form (JSON has no sign field)."""
    for n in oracle.spec_nodes(spec):
        if n["k"] == "AtLeast" and n["v"] <= 0:
            return False
    return True


def negation_over_compound(spec):
    nodes = oracle.spec_nodes(spec)
    for n in nodes:
        if n["k"] in ("Not", "XNor") and any(c["k"] != "leaf" for c in n["c"]):
            return True
        if n["k"] == "Imply" and n["c"][0]["k"] != "leaf":
            return True
    return False


def check_ast(case, ev):
    import json
    import puan.logic.plog as pg
    spec = case["model"]
    lv = oracle.spec_leaves(spec)
    ids = sorted(lv)
    if case.get("points") is not None:
        table = [dict(zip(ids, p_)) for p_ in case["points"]]        # large formulas: drawn assignments instead of the full table
    else:
        table = list(oracle.box_points(ids, [(0, 1)] * len(ids)))
    want = [oracle.spec_value(spec, env) for env in table]
    reals = []
    m = call(build.model, spec, what="constructors")
    if call(m.errors, what="errors()"):
        if not case.get("judge_anyway"):
            ev.count("discarded_invalid")
            return
        # the enumerated formulas have pairwise distinct arguments; validation rejects some of them for reasons of id
        # generation (XNor(a, All(a)) ...), but C04 speaks about what the constructors evaluate to, not about validation
        ev.count("rejected_by_validation_but_judged")
    reals.append(("constructors", m))
    if json_expressible(spec):
        doc = json.loads(json.dumps(to_json_doc(spec)))
        mj = call(pg.from_json, doc, what="plog.from_json")
        if call(mj.errors, what="errors()"):
            # Not a violation: the JSON form has no sign field, and generated ids hash the sign ARGUMENT (None vs 1), so
            # AtLeast(2,[a,b],sign=1) and All(a,b) are different children for the constructors but one and the same child
            # (listed twice -> rightly rejected) when read from JSON. Counted; acceptance itself is C10's subject.
            ev.count("json_form_rejected_by_validation")
        else:
            reals.append(("from_json", mj))
    for name, obj in reals:
        for env, w in zip(table, want):
            got = oracle.bounds_tuple(call(obj.evaluate, dict(env), what=f"{name}.evaluate"))
            if got != (w, w):
                raise Violation(f"{name}: evaluates to {got} on {env}, textbook truth value is {w}")
    d = oracle.spec_depth(spec)
    noc = negation_over_compound(spec)
    cl = common.model_classes(spec, m)
    cl += ["kind:" + k for k in sorted({n["k"] for n in oracle.spec_nodes(spec)} - {"leaf", "ref"})]
    if noc:
        cl.append("negation_over_compound")
    if len(reals) == 2:
        cl.append("json_realised")
    if len(set(want)) == 2:
        cl.append("contingent")
    ev.case(case, noc or d >= 2, cl)


# ------------------------------------------------------------------------------------------------ exhaustive
def _leafs():
    return [{"k": "leaf", "id": "a", "b": [0, 1]}, {"k": "leaf", "id": "b", "b": [0, 1]}]


def _nodes_over(atoms):
    sets = [[x] for x in atoms] + [list(p) for p in itertools.combinations(atoms, 2)]
    for ch in sets:
        for k in ("All", "Any", "Xor", "ExactlyOne", "XNor"):
            yield {"k": k, "id": None, "c": ch}
        for v in (1, 2):
            yield {"k": "AtLeast", "v": v, "s": None, "id": None, "c": ch}
        for v in (0, 1, 2):
            yield {"k": "AtMost", "v": v, "id": None, "c": ch}
    for p in itertools.permutations(atoms, 2):
        yield {"k": "Imply", "id": None, "c": list(p)}
    for x in atoms:
        yield {"k": "Not", "c": [x]}


def exhaustive(slice_i, n_slices):
    d1 = list(_nodes_over(_leafs()))
    i = 0
    for n in d1:
        if i % n_slices == slice_i:
            yield {"model": n, "judge_anyway": True}
        i += 1
    for n in _nodes_over(_leafs() + d1):
        if all(c["k"] == "leaf" for c in n["c"]):
            continue
        if i % n_slices == slice_i:
            yield {"model": n, "judge_anyway": True}
        i += 1


# ------------------------------------------------------------------------------------------------ rule dictionaries
RULE_TYPES = ["REQUIRES_ALL", "REQUIRES_ANY", "ONE_OR_NONE", "FORBIDS_ALL", "REQUIRES_EXCLUSIVELY"]


@st.composite
def cicje_case(draw, tier):
    leaves = ["a", "b", "c", "d", "e", "f"]

    def comps(lo, hi):
        return [{"id": i} for i in draw(st.lists(st.sampled_from(leaves), min_size=lo, max_size=hi, unique=True))]
    rule = {}
    if draw(st.booleans()):
        rule["id"] = "R"
    cons = {"ruleType": draw(st.sampled_from(RULE_TYPES)), "components": comps(1, 5)}
    if draw(st.integers(0, 3)) == 0:
        cons["id"] = "Q"
    rule["consequence"] = cons
    if draw(st.integers(0, 5)) > 0:
        cond = {}
        rel = draw(st.sampled_from(["ALL", "ANY", None]))
        if rel:
            cond["relation"] = rel
        subs = []
        for j in range(draw(st.sampled_from([0, 1, 1, 2, 2, 3]))):
            sc = {"components": comps(1, 4)}
            r = draw(st.sampled_from(["ALL", "ANY", None]))
            if r:
                sc["relation"] = r
            if draw(st.integers(0, 3)) == 0:
                sc["id"] = "S%d" % j
            subs.append(sc)
        cond["subConditions"] = subs
        if draw(st.integers(0, 3)) == 0:
            cond["id"] = "K"
        rule["condition"] = cond
    return {"rule": rule}


def cicje_truth(rule, env):
    def group(g):
        vals = [env[c["id"]] for c in g["components"]]
        return all(vals) if g.get("relation", "ALL") == "ALL" else any(vals)
    c = rule["consequence"]
    vals = [env[x["id"]] for x in c["components"]]
    cons = {"REQUIRES_ALL": all(vals), "REQUIRES_ANY": any(vals), "ONE_OR_NONE": sum(vals) <= 1,
            "FORBIDS_ALL": not any(vals), "REQUIRES_EXCLUSIVELY": sum(vals) == 1}[c["ruleType"]]
    cond = rule.get("condition")
    if not cond or not cond.get("subConditions"):
        return 1 if cons else 0
    gs = [group(g) for g in cond["subConditions"]]
    cv = all(gs) if cond.get("relation", "ALL") == "ALL" else any(gs)
    return 1 if (not cv or cons) else 0


def check_cicje(case, ev):
    import copy
    import puan.logic.plog as pg
    rule = case["rule"]
    m = call(pg.Imply.from_cicJE, copy.deepcopy(rule), what="Imply.from_cicJE")
    if call(m.errors, what="errors()"):
        ev.count("discarded_invalid")
        return
    ids = sorted({c["id"] for c in rule["consequence"]["components"]} |
                 {c["id"] for g in rule.get("condition", {}).get("subConditions", []) for c in g["components"]})
    vals = set()
    for env in oracle.box_points(ids, [(0, 1)] * len(ids)):
        w = cicje_truth(rule, env)
        vals.add(w)
        got = oracle.bounds_tuple(call(m.evaluate, dict(env), what="evaluate"))
        if got != (w, w):
            raise Violation(f"from_cicJE model evaluates to {got} on {env}, rule semantics give {w}")
    nsub = len(rule.get("condition", {}).get("subConditions", []))
    cl = ["rule:" + rule["consequence"]["ruleType"], "subconditions:%d" % nsub,
          "relation:" + str(rule.get("condition", {}).get("relation", "default" if "condition" in rule else "nocond"))]
    if len(rule["consequence"]["components"]) >= 4:
        cl.append("wide_consequence>=4")
    ev.case(case, nsub >= 2 and len(vals) == 2, cl)


def empty(slice_i, n):
    """groups without sub-propositions (the empty conjunction holds, the empty disjunction does not), alone and inside every connective"""
    for spec in S.empty_shapes(slice_i, n):
        yield {"model": spec}


def parts(tier):
    n_slices = 8
    ps = [Part("wide_thresholds", enumerate_cases=(lambda t: __import__("vf.strategies", fromlist=["x"]).wide_threshold_cases()), check=check_ast, time_quick=200.0), Part("concat_names", enumerate_cases=(lambda t: ({"model": {"k": "Not", "c": [s_]}} for s_ in __import__("vf.strategies", fromlist=["x"]).concat_shapes())), check=check_ast, time_quick=150.0), Part("empty0", enumerate_cases=(lambda t: empty(0, 1)), check=check_ast, time_quick=120.0)] + [Part("exhaustive%d" % i, enumerate_cases=(lambda t, i=i: exhaustive(i, n_slices)), check=check_ast,
               time_quick=120.0) for i in range(n_slices)]
    ps.append(Part("random", strategy=lambda t: S.model_spec(kinds=KINDS, depth=3 if t == "quick" else 4, max_int=0, max_bool=5,
                                                             positive_only=True, min_leaves=2).map(lambda s: {"model": s}),
                   check=check_ast, quick=(6, 150), thorough=(12, 3000)))
    ps.append(Part("negated_thresholds", strategy=lambda t: S.negation_focus_spec(int_leaves=False, depth=2 if t == "quick" else 3)
                   .map(lambda s: {"model": s}), check=check_ast, quick=(2, 200), thorough=(4, 3000)))
    ps.append(Part("scale", strategy=lambda t: S.scale_case(booleans_only=True, n_points=(14, 22)), check=check_ast, quick=(2, 40), thorough=(4, 600)))
    ps.append(Part("cicje", strategy=lambda t: cicje_case(t), check=check_cicje, quick=(2, 250), thorough=(4, 4000)))
    return ps
