"""C09 - Queries are pure and results are independent of call history."""
import copy
import json

from hypothesis import strategies as st

from vf import build, hist, oracle, strategies as S
from vf.core import Part, Violation, call, from_puan
from vf.props import common

PROPERTY = "C09"
RULE = ("Part 'twin_queries': SCRIPTED histories - a model and a configurator, each with every twin (one leaf's bounds replaced by bounds with the same sum in all occurrences or in one occurrence only (ill-defined twin), swapped connective, other default, default removed), created in either order, then every kind of query put to both. Hypothesis RuleBasedStateMachine over a pool (<=6) of live models/configurators. Rules: create model / configurator "
        "from a generated spec; create a TWIN of a pooled object (same ids and shape but a leaf's bounds replaced by another "
        "pair with the same sum, a defaulted configurator Any replaced by the structurally identical plain Any(d, Any(rest)), "
        "another default, a swapped All/Any or shifted threshold under the same explicit id, or an identical copy) and re-run an object's last query on its twin; QUERY a pooled object (evaluate, evaluate_propositions, assume, reduce, negate, "
        "errors, flatten, to_json, to_text, to_short, b64 round trip, to_ge_polyhedron, tautology/contradiction/equation "
        "bounds, solve with marker/exact/None solvers; configurators also ge_polyhedron, default_prios, leafs, select, add) "
        "with drawn arguments; DERIVE a new pooled object (assume, reduce, negate, add, JSON / b64 round trip). Result oracle: "
        "every call's canonical result equals the result of the same call on an object rebuilt from its provenance in a "
        "separate long-lived reference process that has no history and clears every cache per request. State oracle: after "
        "every step the deep structural snapshot of every pooled object equals the one taken at its creation. Part 'strict' "
        "never names a sub-proposition id in an interpretation (known finding C09/assume-leak, counted as excluded_known); "
        "part 'tolerant' does, and tolerates a state change only if it is exactly the leak's footprint (variable bounds of "
        "nodes named in an earlier dictionary), dropping the tainted objects. Non-trivial = a history in which one object gets "
        ">=2 queries and either a twin pair was both queried or >=1 derived object was created; distinct = SHA-1 of the history.")
ASSUMPTIONS = ["the reference process imports the same working tree; it shares no state with the process under test",
               "histories are bounded (<=20 steps quick, <=30 thorough) and the pool holds <=6 objects"]

POOL_MAX = 6


def norm(x):
    return json.loads(json.dumps(x, default=str))


def _b64(obj):
    import hashlib
    try:
        return hashlib.sha1(obj.to_b64().encode()).hexdigest()
    except BaseException as e:  # noqa
        if isinstance(e, (KeyboardInterrupt, SystemExit)):
            raise
        return "raised " + type(e).__name__


class Entry:
    def __init__(self, prov, obj, kind, origin):
        self.prov = prov
        self.obj = obj
        self.kind = kind            # "model" | "cfg" | "var"
        self.origin = origin        # index of the object it is a twin of / derived from, or None
        self.snap0 = norm(hist.canon(obj))
        self.b64_0 = _b64(obj)      # what the serialising query returns for the untouched object
        self.leaves = oracle.leaves(obj) if not oracle.is_leaf(obj) else {obj.id: oracle.bounds_tuple(obj.bounds)}
        self.comp_ids = sorted(oracle.compounds(obj)) if not oracle.is_leaf(obj) else []
        self.n_queries = 0
        self.last_query = None
        self.alive = True
        self.family = None          # objects that may legitimately share node objects (set by the session)


class _Dead:
    alive = False
    n_queries = 0
    kind = "dead"
    prov = {"spec": None, "chain": []}


class Session:
    """Executes concrete steps; raises Violation when an oracle disagrees."""

    def __init__(self, tolerant=False, ev=None):
        build.clear_caches()        # every history starts from a clean process state (caches outlive Hypothesis examples)
        self.tolerant = tolerant
        self.ev = ev
        self.pool = []
        self.history = []
        self.named = set()          # sub-proposition ids named in some dictionary so far (tolerant mode)
        self.twin_pairs = []
        self.shared = {}            # one dictionary object reused (cleared + refilled) by queries flagged "shared"
        self.n_derived = 0
        self.tolerated = 0

    # -- helpers -------------------------------------------------------------------------------
    def live(self):
        return [e for e in self.pool if e.alive]

    def _count(self, name, n=1):
        if self.ev is not None:
            self.ev.count(name, n)

    def _check_states(self, after, target=None):
        tfam = self.pool[target].family if target is not None and target < len(self.pool) and getattr(self.pool[target], "family", None) is not None else None
        for idx, e in enumerate(self.pool):
            if not e.alive:
                continue
            now = norm(hist.canon(e.obj))
            if now != e.snap0:
                paths = _diff_paths(e.snap0, now)
                # the open finding writes into the node objects of the object that was asked; another pooled object shows
                # the same footprint only if it holds those very node objects (same family)
                related = tfam is None or e.family == tfam
                if self.tolerant and related and paths and all(_is_leak_footprint(p, e.snap0, self.named) for p in paths):
                    e.alive = False
                    self.tolerated += 1
                    self._count("excluded_known")
                    continue
                raise Violation(f"object #{idx} ({e.kind}) changed state after step {after}: differs at {paths[:4]}")
            if not self.tolerant and _b64(e.obj) != e.b64_0:
                # (strict histories only: the open finding changes number types inside bounds, which the packed form shows)
                raise Violation(f"object #{idx} ({e.kind}): to_b64() returns another string after step {after} than for the untouched object "
                                f"although no public attribute changed (hidden state is packed along)")

    # -- steps ---------------------------------------------------------------------------------
    def step(self, s):
        self.history.append(s)
        k = s["s"]
        if k == "skip":
            if s.get("was") == "create" or s.get("was") == "derive":
                self.pool.append(_Dead())       # keeps later indices stable
            return None
        if k in ("query", "derive") and (s["idx"] >= len(self.pool) or not self.pool[s["idx"]].alive):
            if k == "derive":
                self.pool.append(_Dead())       # keeps later indices stable
            return None
        if k == "create":
            prov = {"spec": s["spec"], "chain": []}
            obj = call(hist.materialise, prov, what="construction")
            if not oracle.is_leaf(obj):
                # validation is a query too: its verdict must be the one a pristine process gives for this definition,
                # whatever was validated here before
                got_e = norm(hist.run_query(obj, {"q": "errors"}))
                want_e = hist.ref().ask(prov, {"q": "errors"})
                if got_e != want_e:
                    raise Violation(f"errors() of a newly built object differs from the verdict of a pristine process for the same definition: "
                                    f"{got_e} vs {want_e}")
            if oracle.is_leaf(obj) or call(obj.errors, what="errors()"):
                self._count("discarded_invalid")
                self.history[-1] = {"s": "skip", "was": "create"}
                self.pool.append(_Dead())
                return None
            e = Entry(prov, obj, "cfg" if s["spec"].get("k") == "Stingy" else "model", s.get("twin_of"))
            e.family = len(self.pool)
            self.pool.append(e)
            if s.get("twin_of") is not None:
                self.twin_pairs.append((s["twin_of"], len(self.pool) - 1))
            self._compare(e, {"q": "to_text"}, "creation")
        elif k == "query":
            e = self.pool[s["idx"]]
            self._compare(e, s["query"], f"query {s['query']['q']}")
            e.n_queries += 1
            e.last_query = s["query"]
        elif k == "derive":
            e = self.pool[s["idx"]]
            try:
                obj = hist.derive(e.obj, s["op"])
                raised = None
            except BaseException as ex:  # noqa
                if isinstance(ex, (KeyboardInterrupt, SystemExit)) or not from_puan(ex):
                    raise
                obj, raised = None, type(ex).__name__
            want = hist.ref().ask(e.prov, {"q": "derive", "op": s["op"]})
            got = {"raised": raised} if raised else norm(hist.canon(obj))
            if got != want:
                raise Violation(f"derive {s['op']['op']} on object #{s['idx']} gives a result different from the same call on a "
                                f"freshly built identical object: {_first_diff(want, got)}")
            if obj is not None and not isinstance(obj, str):
                prov = {"spec": e.prov["spec"], "chain": e.prov["chain"] + [s["op"]]}
                kind = "var" if oracle.is_leaf(obj) else ("cfg" if type(obj).__name__ == "StingyConfigurator" else "model")
                ne = Entry(prov, obj, kind, s["idx"])
                # assume(), the JSON and the base64 round trip build every node anew; add(), negate() and reduce() may hand
                # over the receiver's own node objects, so only those results form one family with the receiver
                ne.family = len(self.pool) if s["op"]["op"] in ("assume", "json", "b64") else e.family
                self.pool.append(ne)
                self.n_derived += 1
            else:
                self.pool.append(_Dead())
        else:
            raise ValueError(k)
        self._check_states(k, s.get("idx") if k in ("query", "derive") else None)

    def _compare(self, e, q, what):
        got = norm(hist.run_query(e.obj, q, self.shared))
        want = hist.ref().ask(e.prov, q)
        if got != want:
            raise Violation(f"{what} on object #{self.pool.index(e)} ({e.kind}) returns a result different from the same call on a "
                            f"freshly built identical object: {_first_diff(want, got)}")

    def summary(self):
        qs = [e.n_queries for e in self.pool]
        twins_both = any(self.pool[a].n_queries and self.pool[b].n_queries for a, b in self.twin_pairs if b < len(self.pool))
        return {"max_queries_one_object": max(qs or [0]), "twins_both_queried": twins_both, "derived": self.n_derived,
                "objects": len(self.pool), "steps": len(self.history)}


def _diff_paths(a, b, path=""):
    if type(a) != type(b):
        return [path]
    if isinstance(a, dict):
        out = []
        for k in sorted(set(a) | set(b)):
            if k not in a or k not in b:
                out.append(path + "/" + k)
            elif a[k] != b[k]:
                out += _diff_paths(a[k], b[k], path + "/" + k)
        return out
    if isinstance(a, list):
        if len(a) != len(b):
            return [path]
        out = []
        for i, (x, y) in enumerate(zip(a, b)):
            if x != y:
                out += _diff_paths(x, y, path + f"/{i}")
        return out
    return [path] if a != b else []


def _first_diff(a, b):
    p = _diff_paths(a, b)
    if not p:
        return "(no difference?)"
    x, y = a, b
    try:
        for part in p[0].split("/")[1:]:
            x = x[int(part)] if isinstance(x, list) else x[part]
            y = y[int(part)] if isinstance(y, list) else y[part]
    except Exception:
        pass
    return f"at {p[0]}: fresh={str(x)[:160]} vs here={str(y)[:160]}"


def _is_leak_footprint(path, snap0, named):
    """path like .../variable/bounds/1 where the node owning 'variable' has an id in ``named``"""
    parts = path.split("/")[1:]
    if "variable" not in parts:
        return False
    i = len(parts) - 1 - parts[::-1].index("variable")
    if parts[i + 1:i + 2] != ["bounds"]:
        return False
    node = snap0
    try:
        for part in parts[:i + 1]:
            node = node[int(part)] if isinstance(node, list) else node[part]
    except Exception:
        return False
    return isinstance(node, dict) and node.get("id") in named


# ------------------------------------------------------------------------------------------------ concretisation
def make_interp(entry, seeds, allow_compound, named=None):
    """interpretation items from drawn ints: leaf ids (in bounds), unknown ids, and (tolerant) sub-proposition ids"""
    items = []
    ids = sorted(entry.leaves)
    for j, i in enumerate(ids):
        a = seeds[j % len(seeds)]
        if a % 4 == 0:
            continue
        lo, hi = entry.leaves[i]
        v = lo + (a // 4) % (hi - lo + 1)
        form = (a // 7) % 5
        if form >= 3:
            u = min(hi, v + (a // 11) % 3)
            items.append([i, form, v, u])
        else:
            items.append([i, form, v, v])
    if seeds[0] % 5 == 0:
        items.append(["zz_unknown", 0, 1, 1])
    if allow_compound and entry.comp_ids and seeds[1] % 2 == 0:
        cid = entry.comp_ids[seeds[2] % len(entry.comp_ids)]
        items.append([cid, seeds[3] % 3, seeds[4] % 2, seeds[4] % 2])
        if named is not None:
            named.add(cid)
    return items


PROBE_MODEL = ["evaluate", "evaluate_propositions", "evaluate", "to_ge_polyhedron", "solve", "reduce", "negate", "to_json", "errors", "flags", "inspect"]
PROBE_CFG = PROBE_MODEL + ["ge_polyhedron", "select", "default_prios", "leafs", "ge_polyhedron", "select", "poly_analysis", "select"]


def make_query(entry, kind_i, seeds, allow_compound, named, extra_rule, probe=False):
    if probe:
        lst = PROBE_CFG if entry.kind == "cfg" else PROBE_MODEL
        k = lst[kind_i % len(lst)]
    elif entry.kind == "var":
        k = ["evaluate", "evaluate_propositions", "to_json", "to_short", "flatten"][kind_i % 5]
    elif entry.kind == "cfg" and kind_i % 3 != 0:
        k = hist.CFG_QUERIES[(kind_i // 3) % len(hist.CFG_QUERIES)]
    else:
        k = hist.MODEL_QUERIES[(kind_i // 3) % len(hist.MODEL_QUERIES)]
    q = {"q": k}
    if k in ("evaluate", "evaluate_propositions", "assume"):
        q["i"] = make_interp(entry, seeds, allow_compound, named)
        if seeds[5] % 2 == 0:
            q["shared"] = True      # handed over in the session's one dictionary object, updated in place
    elif k == "to_ge_polyhedron":
        q["active"] = bool(seeds[0] % 2)
    elif k == "solve":
        ids = sorted(entry.leaves)
        q["objs"] = [[[ids[(seeds[j] + j) % len(ids)], (seeds[j] % 7) - 2] for j in range(1 + seeds[0] % 3)]]
        q["solver"] = ["marker", "exact", "none"][seeds[1] % 3]
        q["virtual"] = bool(seeds[2] % 2)
    elif k == "select":
        ids = sorted(entry.leaves)
        q["prios"] = [[[ids[(seeds[j] + j) % len(ids)], [1, 2, -1, 3][seeds[j] % 4]] for j in range(seeds[0] % 3)]]
        q["solver"] = ["marker", "exact", "none"][seeds[1] % 3]
        q["only_leafs"] = bool(seeds[2] % 2)
    elif k == "add":
        q["rule"] = extra_rule
    return q


def twin_spec(spec, variant, seeds):
    s = copy.deepcopy(spec)
    nodes = oracle.spec_nodes(s)
    if variant == 0:
        leaves = sorted({n["id"] for n in nodes if n["k"] == "leaf"})
        target = leaves[seeds[0] % len(leaves)]
        for n in nodes:
            if n["k"] == "leaf" and n["id"] == target:
                lo, hi = n["b"]
                n["b"] = [lo + 1, hi - 1] if hi - lo >= 2 else [lo - 1, hi + 1]
                n.pop("str", None)
        return s
    if variant == 1:
        for n in nodes:
            if n["k"] == "cAny" and n.get("default"):
                d = n["default"][0]
                dl = [c for c in n["c"] if c["k"] == "leaf" and c["id"] == d]
                rest = [c for c in n["c"] if not (c["k"] == "leaf" and c["id"] == d)]
                if dl and rest:
                    n["k"] = "Any"
                    n["c"] = [dl[0], {"k": "Any", "id": None, "c": rest}]
                    n.pop("default")
        return s
    if variant == 4:
        # same ids, different meaning: swap All<->Any / shift a threshold on the first node that allows it
        for n in nodes:
            if n["k"] in ("All", "Any") and n.get("id") is not None:
                n["k"] = "Any" if n["k"] == "All" else "All"
                return s
            if n["k"] in ("AtLeast", "AtMost") and n.get("id") is not None:
                n["v"] = n["v"] + 1
                return s
        return s
    if variant == 2:
        for n in nodes:
            if n["k"] in ("cAny", "cXor") and n.get("default"):
                lids = [c["id"] for c in n["c"] if c["k"] == "leaf"]
                if len(lids) >= 2:
                    n["default"] = [lids[(lids.index(n["default"][0]) + 1) % len(lids)] if n["default"][0] in lids else lids[0]]
        return s
    return s


# ------------------------------------------------------------------------------------------------ machine
def make_machine(tolerant):
    def factory(tier, ev, sink, budget):
        from hypothesis.stateful import RuleBasedStateMachine, rule, initialize, precondition

        seeds_st = st.lists(st.integers(0, 10 ** 6), min_size=8, max_size=8)
        rule_st = S.configurator_spec(max_items=5, max_rules=1).map(lambda c: c["c"][0])

        class Machine(RuleBasedStateMachine):
            STEPS = 20 if tier == "quick" else 30

            def __init__(self):
                super().__init__()
                self.s = Session(tolerant=tolerant, ev=ev)
                sink["history"] = {"tolerant": tolerant, "steps": self.s.history}
                self.done = False

            def _skip(self):
                # soft time budget: later histories become no-ops - but never once a failure is being shrunk/replayed
                return budget.over() and not sink.get("violation")

            def _step(self, step):
                try:
                    self.s.step(step)
                except Violation as v:
                    sink["violation"] = v.detail
                    sink["failing_case"] = {"tolerant": tolerant, "steps": copy.deepcopy(self.s.history)}
                    raise

            @staticmethod
            def minimise(case, detail):
                return minimise(case, detail)

            @initialize(spec=st.one_of(S.model_spec(depth=2, max_bool=4, max_int=2), S.configurator_spec(max_items=5, max_rules=3)))
            def first(self, spec):
                if self._skip():
                    return
                self._step({"s": "create", "spec": spec})

            @rule(spec=S.model_spec(depth=2, max_bool=4, max_int=2))
            def create_model(self, spec):
                if self._skip() or len(self.s.live()) >= POOL_MAX:
                    return
                self._step({"s": "create", "spec": spec})

            @rule(spec=S.configurator_spec(max_items=5, max_rules=3))
            def create_cfg(self, spec):
                if self._skip() or len(self.s.live()) >= POOL_MAX:
                    return
                self._step({"s": "create", "spec": spec})

            @rule(i=st.integers(0, 50), variant=st.integers(0, 4), seeds=seeds_st)
            def twin(self, i, variant, seeds):
                live = [k for k, e in enumerate(self.s.pool) if e.alive and not e.prov["chain"]]
                if self._skip() or not live or len(self.s.live()) >= POOL_MAX:
                    return
                idx = live[i % len(live)]
                spec = twin_spec(self.s.pool[idx].prov["spec"], variant, seeds)
                self._step({"s": "create", "spec": spec, "twin_of": idx})

            @rule(i=st.integers(0, 50), kind=st.integers(0, 200), seeds=seeds_st, extra=rule_st)
            def query2(self, i, kind, seeds, extra):
                self.query(i, kind, seeds, extra)

            @rule(i=st.integers(0, 50), kind=st.integers(0, 200), seeds=seeds_st, extra=rule_st)
            def query3(self, i, kind, seeds, extra):
                self.query(i, kind, seeds, extra)

            @rule(i=st.integers(0, 50), kind=st.integers(0, 200), seeds=seeds_st)
            def query_cfg(self, i, kind, seeds):
                """query a configurator (twins are most interesting there)"""
                live = [k for k, e in enumerate(self.s.pool) if e.alive and e.kind == "cfg"]
                if self._skip() or not live:
                    return
                idx = live[i % len(live)]
                q = make_query(self.s.pool[idx], 1 + 3 * (kind % 50), seeds, tolerant, self.s.named, None)
                if q["q"] == "add":
                    q = {"q": "ge_polyhedron"}
                self._step({"s": "query", "idx": idx, "query": q})

            @rule(i=st.integers(0, 50), variant=st.integers(0, 4), kind=st.integers(0, 200), seeds=seeds_st, order=st.booleans())
            def twin_probe(self, i, variant, kind, seeds, order):
                """create a twin and put the SAME query to both, in either order"""
                live = [k for k, e in enumerate(self.s.pool) if e.alive and not e.prov["chain"] and e.kind != "var"]
                if self._skip() or not live or len(self.s.live()) >= POOL_MAX:
                    return
                idx = live[i % len(live)]
                spec = twin_spec(self.s.pool[idx].prov["spec"], [0, 4, 4, 1, 2][variant], seeds)
                n0 = len(self.s.pool)
                self._step({"s": "create", "spec": spec, "twin_of": idx})
                if len(self.s.pool) <= n0 or not self.s.pool[n0].alive:
                    return
                q = make_query(self.s.pool[idx], kind, seeds, False, None, None, probe=True)
                for target in ([idx, n0] if order else [n0, idx]):
                    self._step({"s": "query", "idx": target, "query": copy.deepcopy(q)})

            @rule(i=st.integers(0, 50))
            def mirror_query(self, i):
                """run the last query of an object on its twin / its origin with identical arguments
                (reaches caches keyed by id + arguments instead of by definition)"""
                pairs = [(a, b) for a, b in self.s.twin_pairs if b < len(self.s.pool) and self.s.pool[a].alive and self.s.pool[b].alive]
                cands = [(a, b) for a, b in pairs if self.s.pool[a].last_query] + [(b, a) for a, b in pairs if self.s.pool[b].last_query]
                if self._skip() or not cands:
                    return
                src, dst = cands[i % len(cands)]
                q = copy.deepcopy(self.s.pool[src].last_query)
                if q["q"] == "add":
                    return
                self._step({"s": "query", "idx": dst, "query": q})

            @rule(i=st.integers(0, 50), kind=st.integers(0, 200), seeds=seeds_st, extra=rule_st)
            def query(self, i, kind, seeds, extra):
                live = [k for k, e in enumerate(self.s.pool) if e.alive]
                if self._skip() or not live:
                    return
                idx = live[i % len(live)]
                q = make_query(self.s.pool[idx], kind, seeds, tolerant, self.s.named, extra)
                self._step({"s": "query", "idx": idx, "query": q})

            @rule(i=st.integers(0, 50), kind=st.integers(0, 5), seeds=seeds_st, extra=rule_st)
            def derive(self, i, kind, seeds, extra):
                live = [k for k, e in enumerate(self.s.pool) if e.alive and e.kind != "var"]
                if self._skip() or not live or len(self.s.live()) >= POOL_MAX:
                    return
                idx = live[i % len(live)]
                e = self.s.pool[idx]
                k = ["assume", "reduce", "negate", "json", "b64", "add"][kind]
                if k == "add" and e.kind != "cfg":
                    k = "assume"
                op = {"op": k}
                if k == "assume":
                    op["d"] = make_interp(e, seeds, tolerant, self.s.named)
                if k == "add":
                    op["rule"] = extra
                self._step({"s": "derive", "idx": idx, "op": op})

            def teardown(self):
                if self.done:
                    return
                self.done = True
                sm = self.s.summary()
                nt = sm["max_queries_one_object"] >= 2 and (sm["twins_both_queried"] or sm["derived"] >= 1)
                cl = ["steps>=8" if sm["steps"] >= 8 else "steps<8"]
                if sm["twins_both_queried"]:
                    cl.append("twins_both_queried")
                if sm["derived"]:
                    cl.append("has_derived_object")
                if any(e.kind == "cfg" for e in self.s.pool):
                    cl.append("has_configurator")
                if self.s.tolerated:
                    cl.append("leak_tolerated")
                ev.count("steps", sm["steps"])
                ev.case({"tolerant": tolerant, "steps": list(self.s.history)}, nt, cl)

        return Machine
    return factory


def _fails(case):
    from vf.core import Ev
    try:
        replay(case, Ev())
    except Violation as v:
        return v.detail
    except BaseException as e:  # noqa
        if isinstance(e, (KeyboardInterrupt, SystemExit)):
            raise
        return None
    return None


def minimise(case, detail):
    """greedy step-wise delta debugging: replace steps by placeholders (indices stay stable) while it still fails"""
    if _fails(case) is None:
        return case, detail + "\n(note: the recorded history does not fail when replayed on its own)"
    steps = list(case["steps"])
    for i in range(len(steps) - 1, -1, -1):
        if steps[i]["s"] == "skip":
            continue
        trial = steps[:i] + [{"s": "skip", "was": steps[i]["s"]}] + steps[i + 1:]
        d = _fails({"tolerant": case.get("tolerant", False), "steps": trial})
        if d is not None:
            steps, detail = trial, d
    while steps and steps[-1]["s"] == "skip":
        steps.pop()
    return {"tolerant": case.get("tolerant", False), "steps": steps}, detail


def replay(case, ev):
    s = Session(tolerant=case.get("tolerant", False), ev=ev)
    for st_ in case["steps"]:
        if st_["s"] in ("query", "derive") and not case.get("strict_names"):
            q = st_.get("query") or st_.get("op")
            for it in q.get("i", []) + q.get("d", []):
                s.named.add(it[0])
        s.step(copy.deepcopy(st_))
    sm = s.summary()
    ev.case(case, sm["max_queries_one_object"] >= 2, ["replay"])


def derived_then_named(tier):
    """scripted histories (tolerant mode): a model, a model derived from it by assume() / the JSON / the base64 round trip (all
    three build every node anew), then a query on the ORIGINAL that names a sub-proposition id in a part of the tree the
    derivation did not touch (the open finding writes into the original's node there), then queries on the DERIVED model -
    which must still answer like a freshly derived one"""
    L = lambda i: {"k": "leaf", "id": i, "b": [0, 1]}
    for root_kind in ("All", "Any", "AtLeast"):
        for s2_kind in ("All", "Xor"):
            spec = {"k": root_kind, "id": "A", "c": [{"k": "Any", "id": "B", "c": [L("a"), L("b")]}, {"k": s2_kind, "id": "E", "c": [L("c"), L("d")]}, L("z")]}
            if root_kind == "AtLeast":
                spec["v"], spec["s"] = 2, 1
            for op in ({"op": "assume", "d": [["a", 0, 1, 1]]}, {"op": "assume", "d": [["z", 1, 0, 0]]}, {"op": "json"}, {"op": "b64"}):
                for e_val in (0, 1):
                    for naming in ("evaluate", "assume", "evaluate_propositions"):
                        steps = [{"s": "create", "spec": spec},
                                 {"s": "derive", "idx": 0, "op": op},
                                 {"s": "query", "idx": 0, "query": {"q": naming, "i": [["E", 0, e_val, e_val], ["z", 0, 1, 1]]}}]
                        for c_val, d_val in ((1, 1), (0, 0), (1, 0)):
                            steps.append({"s": "query", "idx": 1, "query": {"q": "evaluate", "i": [["a", 0, 1, 1], ["b", 0, 0, 0], ["c", 0, c_val, c_val], ["d", 0, d_val, d_val], ["z", 0, 1 - e_val, 1 - e_val]]}})
                        steps.append({"s": "query", "idx": 1, "query": {"q": "to_json"}})
                        yield {"tolerant": True, "steps": steps}


def wide_validation(tier):
    """scripted histories with WIDE models (a node with 64-130 rules): an ill-defined one (a reference ring through the top id,
    or an id with two definitions) is validated first, then well-defined wide models are built, validated and queried"""
    L = lambda i: {"k": "leaf", "id": i, "b": [0, 1]}
    for n in (64, 65, 66, 100, 130):
        rules = [{"k": "Any", "id": "R%03d" % j, "c": [L("x%03d" % j), L("y%03d" % j)]} for j in range(n)]
        good = {"k": "All", "id": "GOOD", "c": rules}
        good2 = {"k": "Stingy", "id": "conf", "c": [{"k": "cXor", "id": "G%03d" % j, "c": [L("a%03d" % j), L("b%03d" % j), L("c%03d" % j)], "default": ["b%03d" % j]} for j in range(n)]}
        ring = {"k": "All", "id": "BAD", "c": rules[:-1] + [{"k": "Any", "id": "LOOP", "c": [L("BAD"), L("z")]}]}
        twodef = {"k": "All", "id": "BAD2", "c": rules[:-1] + [{"k": "Any", "id": "R000", "c": [L("x000"), L("zz")]}]}
        for bad in (ring, twodef):
            for second in (good, good2):
                steps = [{"s": "create", "spec": bad}, {"s": "create", "spec": second},
                         {"s": "query", "idx": 1, "query": {"q": "errors"}}, {"s": "query", "idx": 1, "query": {"q": "to_json"}},
                         {"s": "create", "spec": good}, {"s": "query", "idx": 2, "query": {"q": "errors"}}]
                yield {"tolerant": False, "strict_names": True, "steps": steps}


def twin_queries(tier):
    """scripted histories: a model / configurator and a TWIN of it (same ids and shape; bounds of one leaf replaced by bounds
    with the same lower+upper in every occurrence, or in ONE occurrence only - which makes the twin ill-defined -, another
    default, a swapped connective) live in one process; every kind of query is put to both, in either order. Whatever is
    remembered per "equal-looking" object instead of per definition answers the second one with the first one's result."""
    L = lambda i: {"k": "leaf", "id": i, "b": [0, 1]}
    N = lambda: {"k": "leaf", "id": "n", "b": [0, 2]}
    model = {"k": "All", "id": "A", "c": [{"k": "AtLeast", "id": "B", "v": 2, "s": 1, "c": [N(), L("a")]}, {"k": "Any", "id": "C", "c": [N(), L("b")]}]}
    cfg = {"k": "Stingy", "id": "conf", "c": [{"k": "cXor", "id": "X", "c": [L("p"), L("q"), L("r")], "default": ["q"]},
                                              {"k": "cAny", "id": "Y", "c": [L("a"), L("b")], "default": ["a"]},
                                              {"k": "AtLeast", "id": "R", "v": 1, "s": 1, "c": [N(), L("a")]}]}
    I_model = [["n", 0, 1, 1], ["a", 0, 1, 1], ["b", 0, 0, 0]]
    I_cfg = [["n", 0, 1, 1], ["a", 0, 1, 1], ["b", 0, 0, 0], ["p", 0, 0, 0], ["q", 0, 1, 1], ["r", 0, 0, 0]]
    for base, I in ((model, I_model), (cfg, I_cfg)):
        is_cfg = base["k"] == "Stingy"
        twins = [twin_spec(base, 0, [j]) for j in range(len(oracle.spec_leaves(base)))] + [twin_spec(base, 4, [0])]
        if is_cfg:
            twins += [twin_spec(base, 1, [0]), twin_spec(base, 2, [0])]
        twins += common.twins_one_occurrence(base, limit=4)
        queries = [{"q": "evaluate", "i": I}, {"q": "evaluate_propositions", "i": I}, {"q": "assume", "i": I[:2]}, {"q": "reduce"}, {"q": "negate"},
                   {"q": "errors"}, {"q": "flatten"}, {"q": "to_json"}, {"q": "to_text"}, {"q": "to_short"}, {"q": "b64_roundtrip"},
                   {"q": "to_ge_polyhedron", "active": True}, {"q": "to_ge_polyhedron", "active": False}, {"q": "flags"}, {"q": "inspect"},
                   {"q": "solve", "objs": [[["a", 1], ["n", -1]]], "solver": "exact", "virtual": True}]
        if is_cfg:
            queries += [{"q": "ge_polyhedron"}, {"q": "poly_analysis"}, {"q": "default_prios"}, {"q": "leafs"},
                        {"q": "select", "prios": [[["p", 1]], [["b", 2], ["q", -1]]], "solver": "exact", "only_leafs": False},
                        {"q": "select", "prios": [[["r", 1]]], "solver": "marker", "only_leafs": True}]
        seen = set()
        for tw in twins:
            key = json.dumps(tw, sort_keys=True)
            if tw == base or key in seen:
                continue
            seen.add(key)
            for first, second in ((base, tw), (tw, base)):
                steps = [{"s": "create", "spec": first}, {"s": "create", "spec": second, "twin_of": 0}]
                for q in queries:
                    steps.append({"s": "query", "idx": 0, "query": copy.deepcopy(q)})
                    steps.append({"s": "query", "idx": 1, "query": copy.deepcopy(q)})
                yield {"tolerant": False, "strict_names": True, "steps": steps}


def parts(tier):
    return [
        Part("twin_queries", enumerate_cases=twin_queries, check=replay, time_quick=150.0),
        Part("strict", machine=make_machine(False), check=replay, quick=(6, 130), thorough=(12, 800), time_quick=50, time_thorough=900),
        Part("tolerant", machine=make_machine(True), check=replay, quick=(2, 80), thorough=(4, 500), time_quick=50, time_thorough=900),
        Part("wide_validation", enumerate_cases=wide_validation, check=replay, time_quick=150.0),
        Part("derived_then_named", enumerate_cases=derived_then_named, check=replay, time_quick=150.0),
    ]
