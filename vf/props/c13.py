"""C13 - Priority compression yields strictly dominating weights.

Code under test: ``integer_ndarray.ndint_compress(method, axis)`` (all seven methods) in the shapes the
docstring documents and the one caller (``ge_polyhedron_config._vectors_from_prios``: 3-D, axis 0,
'shadow') uses.

Reading of the statement (fixed here, see RULE):

* A 2-D *view* has rows = priority levels (later rows dominate) and one output entry per column.
  ``axis=0`` -> the array itself, ``axis=1`` -> its transpose, ``axis=None`` -> the single row of the
  flattened array (docstring: "If None, the data array is first flattened"), 1-D -> single row,
  3-D with ``axis=0`` -> a batch of 2-D views (what ``_vectors_from_prios`` relies on).
* The effective entry of a column is its last non-zero value ``v`` in row ``r``; key ``k=(r,|v|)``.
* 'shadow': zero <=> no effective entry, sign(w)=sign(v), |w_i|=|w_j| <=> k_i=k_j,
  |w_i|<|w_j| <=> k_i<k_j and |w_i| > sum of |w_j| over *all columns* j with k_j<k_i (every column
  counted, which is what the docstring example ``[1,2,1,0,4,4,6] -> [1,3,1,0,6,6,18]`` shows:
  3 > 1+1, 6 > 1+1+3, 18 > 1+1+3+6+6).  Nothing is asserted about the concrete numbers.
* The 64-bit proviso is decided from the *minimal* dominating weights (weight of a group = 1 + sum of the
  weights of all columns in lower groups), never from the output.
"""
from hypothesis import strategies as st

from vf.core import Part, Violation, call

PROPERTY = "C13"
RULE = ("Vectors with an explicit axis=0 are judged for 'prio'/'rank' as any order-preserving dense ranking. Hypothesis draws integer arrays from a per-case value pool (zero share 20/33/50/67%, magnitudes from a few "
        "small sets so ties are frequent, +v and -v both present, 20% of the pools with 1-3 magnitudes up to 10^6), "
        "optionally with a zeroed row/column or all zeros. Shapes: 1-D (1-12 entries; a near-overflow flavour with "
        "52-68 distinct magnitudes), 2-D 1-5 levels x 1-8 columns on axis 0, axis 1 and flattened (axis None), 3-D "
        "batches (1-3) on axis 0 incl. the (n_prios,2,n_cols) form of _vectors_from_prios whose first row is all -1. "
        "Oracle (plain Python ints): per column key (row of last non-zero, |value|) -> zero/sign/tie/order/strict "
        "dominance over the sum of all lower columns for 'shadow'; dense signed rank of the key for 'prio'; order "
        "preserving dense ranking of the signed prio vector (base 0 or 1) for 'rank'; first/last non-zero, smallest "
        "non-zero, largest entry per line for first/last/min/max; 3-D result equals the per-batch 2-D result. Cases "
        "whose minimal dominating weights exceed 2^63-1 are outside the statement (counted as skipped_overflow). "
        "Non-trivial (shadow, prio_rank) = >=2 distinct priority keys in use AND >=1 tie (two columns with the same "
        "key) AND >=1 negative effective entry; non-trivial (select) = some line with two different non-zero ends "
        "AND >=1 negative AND >=1 zero entry; distinct = SHA-1 of the canonical case JSON.")
ASSUMPTIONS = [
    "puan_rspy 0.3.0 (py_optimized_bit_allocation_64) is part of the system under test",
    "3-D input is only checked as a stack over axis 0 (the caller's form): relations of the statement for 'shadow'; for "
    "'first'/'last'/'prio'/'rank' the result must equal the per-matrix 2-D results in member order (for first/last the "
    "literal reading - compress across the members - is accepted as well); 'min' / 'max' have no stack form and are checked on "
    "3-D input along each axis (numpy's reduction); other axes of 3-D input for the stack methods are undocumented",
    "1-D input with axis=0 is checked for 'shadow', 'min' and 'max'; for 'prio'/'rank' the ordering followed on 1-D/axis=0 is "
    "undocumented (the code ranks the raw signed values): any order-preserving dense ranking of the entries, or the one-row "
    "2-D result, is accepted; 'first'/'last' on 1-D/axis=0 (identity) are left out",
    "arrays stored in a narrow integer type (int8/int16/int32/unsigned) are outside the checked domain: the unchanged code "
    "raises OverflowError for them in 'shadow' and 'min' along an axis (it writes 64-bit sentinels into the input's type)",
    "axis=None is checked where the docstring shows it (min, rank, shadow) and for 'prio' via the documented "
    "flattening rule",
    "'rank' ranks the signed 'prio' vector (docstring example gives the negative entry rank 0), so zeros are not "
    "asserted to be kept by 'rank'",
    "concrete weight values are not pinned, only the relations of the statement",
]

INT64_MAX = 2 ** 63 - 1


# ----------------------------------------------------------------------------------------------
# oracle helpers (plain Python)
# ----------------------------------------------------------------------------------------------

def _ndim(a):
    d = 0
    while isinstance(a, list):
        d += 1
        if not a:
            break
        a = a[0]
    return d


def _transpose(a):
    return [list(col) for col in zip(*a)]


def _flatten(a):
    out = []
    for x in a:
        if isinstance(x, list):
            out.extend(_flatten(x))
        else:
            out.append(x)
    return out


def views_of(a, axis):
    """list of 2-D views (rows = levels, later dominate; one output entry per column)"""
    nd = _ndim(a)
    if nd == 3:
        return [m for m in a]
    if axis is None:
        return [[_flatten(a)]]
    if nd == 1:
        return [[list(a)]]
    if axis == 0:
        return [a]
    return [_transpose(a)]


def keys_of(view):
    """per column: None or (row of last non-zero, |v|, sign)"""
    ks = []
    for j in range(len(view[0])):
        k = None
        for r in range(len(view)):
            v = view[r][j]
            if v != 0:
                k = (r, abs(v), 1 if v > 0 else -1)
        ks.append(k)
    return ks


def minimal_top_weight(ks):
    groups = {}
    for k in ks:
        if k is not None:
            groups[k[:2]] = groups.get(k[:2], 0) + 1
    total = 0
    w = 0
    for g in sorted(groups):
        w = 1 + total
        total += w * groups[g]
    return w


def expected_prio(ks):
    groups = sorted(set(k[:2] for k in ks if k is not None))
    pos = {g: i + 1 for i, g in enumerate(groups)}
    return [0 if k is None else pos[k[:2]] * k[2] for k in ks]


def shadow_disagreement(ks, w):
    """None or a text describing which clause of the statement the weights ``w`` break."""
    if len(w) != len(ks):
        return f"{len(w)} weights for {len(ks)} columns"
    nz = [j for j, k in enumerate(ks) if k is not None]
    for j, k in enumerate(ks):
        if k is None:
            if w[j] != 0:
                return f"column {j} has no non-zero entry but weight {w[j]} (zeros are not kept)"
        elif w[j] == 0 or (w[j] > 0) != (k[2] > 0):
            return f"column {j}: effective entry has sign {k[2]:+d} but weight is {w[j]} (sign not kept)"
    for i in nz:
        ki = ks[i][:2]
        lower = 0
        for j in nz:
            kj = ks[j][:2]
            if kj == ki and abs(w[i]) != abs(w[j]):
                return (f"columns {i} and {j} have equal priority {ki} (level, |value|) but weights "
                        f"{w[i]} and {w[j]}")
            if kj < ki:
                if not abs(w[j]) < abs(w[i]):
                    return (f"column {j} has lower priority {kj} than column {i} {ki} but |weight| "
                            f"{abs(w[j])} is not below {abs(w[i])}")
                lower += abs(w[j])
        if not abs(w[i]) > lower:
            return (f"column {i} (priority {ki}) has |weight| {abs(w[i])} which is not strictly larger than "
                    f"the sum {lower} of the absolute weights of all lower priorities")
    return None


def _mods():
    import numpy as np
    import puan  # noqa: F401
    import puan.ndarray as pnd
    return pnd, np


def _as_ints(np, r, shape, what, case):
    """shape check + conversion to nested Python ints"""
    got = tuple(int(x) for x in np.shape(r))
    if got != tuple(shape):
        raise Violation(f"{what}: result has shape {got}, expected {tuple(shape)}; input {case['a']} "
                        f"axis={case['axis']}; result {np.asarray(r).tolist()}")
    flat = [int(x) for x in np.asarray(r).reshape(-1).tolist()]
    if len(shape) <= 1:
        return flat if len(shape) == 1 else flat[0]
    n = shape[-1]
    return [flat[i * n:(i + 1) * n] for i in range(shape[0])]


def _key_classes(all_ks, views):
    keys = [k for ks in all_ks for k in ks if k is not None]
    cls = []
    tie = any(len([1 for k in ks if k is not None]) != len(set(k[:2] for k in ks if k is not None)) for ks in all_ks)
    neg = any(k[2] < 0 for k in keys)
    multi = any(len(set(k[:2] for k in ks if k is not None)) >= 2 for ks in all_ks)
    rows = any(len(set(k[0] for k in ks if k is not None)) >= 2 for ks in all_ks)
    if tie:
        cls.append("tie")
    if neg:
        cls.append("negative")
    if multi:
        cls.append("keys>=2")
    if rows:
        cls.append("rows_in_use>=2")
    if any(k is None for ks in all_ks for k in ks):
        cls.append("allzero_column")
    if any(len(v) > 1 and any(all(x == 0 for x in row) for row in v) for v in views):
        cls.append("allzero_row")
    if any(sum(1 for r in range(len(v)) if v[r][j] != 0) >= 2 for v in views for j in range(len(v[0]))):
        cls.append("shadowed_entry")
    if any(k[1] > 1000 for k in keys):
        cls.append("large_magnitude")
    if any(k[:2] == k2[:2] and k[2] != k2[2] for ks in all_ks for k in ks if k for k2 in ks if k2):
        cls.append("tie_across_signs")
    # a tie must be observable in one view together with >=2 keys and a negative there
    nontrivial = any(
        len(set(k[:2] for k in ks if k)) >= 2
        and len([1 for k in ks if k]) != len(set(k[:2] for k in ks if k))
        and any(k[2] < 0 for k in ks if k)
        for ks in all_ks)
    return cls, nontrivial


# ----------------------------------------------------------------------------------------------
# checks
# ----------------------------------------------------------------------------------------------

def check_shadow(case, ev):
    pnd, np = _mods()
    a, axis = case["a"], case["axis"]
    nd = _ndim(a)
    views = views_of(a, axis)
    all_ks = [keys_of(v) for v in views]
    top = max(minimal_top_weight(ks) for ks in all_ks)
    if top > INT64_MAX:
        ev.count("skipped_overflow")
        return
    n_out = len(views[0][0])
    X = pnd.integer_ndarray(a)
    if case.get("alias"):
        R = call(pnd.ndint_compress, X, method="shadow", axis=axis, what="puan.ndarray.ndint_compress(shadow)")
    else:
        R = call(X.ndint_compress, method="shadow", axis=axis, what="ndint_compress(shadow)")
    # compressing must not change its input, and compressing the same array object again must give the same weights
    if np.asarray(X).tolist() != a:
        raise Violation(f"ndint_compress(shadow) changed its input array: {np.asarray(X).tolist()} vs {a}")
    R2 = call(X.ndint_compress, method="shadow", axis=axis, what="ndint_compress(shadow), second call")
    if np.asarray(R2).tolist() != np.asarray(R).tolist():
        raise Violation(f"ndint_compress(shadow) gives {np.asarray(R2).tolist()} when called again on the same array, first "
                        f"{np.asarray(R).tolist()}; input {a}")
    if nd == 3:
        W = _as_ints(np, R, (len(a), n_out), "shadow on 3-D batch", case)
        for i, (ks, w) in enumerate(zip(all_ks, W)):
            single = call(pnd.integer_ndarray(a[i]).ndint_compress, method="shadow", axis=0,
                          what="ndint_compress(shadow) on one batch member")
            single = _as_ints(np, single, (n_out,), f"shadow on batch member {i}", {"a": a[i], "axis": 0})
            if single != w:
                raise Violation(f"3-D shadow result row {i} = {w} differs from compressing batch member {i} alone "
                                f"= {single}; input {a}")
            bad = shadow_disagreement(ks, w)
            if bad:
                raise Violation(f"shadow (batch member {i}, axis=0): {bad}; input {a[i]}; output {w}")
    else:
        w = _as_ints(np, R, (n_out,), "shadow", case)
        bad = shadow_disagreement(all_ks[0], w)
        if bad:
            raise Violation(f"shadow axis={axis}: {bad}; input {a}; output {w}")
    cls, nontrivial = _key_classes(all_ks, views)
    if top > 2 ** 40:
        cls.append("top_weight>2^40")
    ev.case(case, nontrivial, [f"shape={nd}d/axis={axis}" + ("/cfg" if case.get("cfg") else "")] + cls)


def check_batch(case, ev, methods):
    """3-D input: every 3-D branch of ndint_compress maps the 2-D method over the members of axis 0 (the form the
    configurator uses for 'shadow'); 'along axis 0' read literally would instead compress across the members. Either
    reading is accepted - anything else (members mixed up, reordered, another axis) is not what the statement allows."""
    pnd, np = _mods()
    a = case["a"]
    for m in methods:
        R = np.asarray(call(pnd.integer_ndarray(a).ndint_compress, method=m, axis=0, what=f"ndint_compress({m}) on a stack")).tolist()
        per_member = [np.asarray(call(pnd.integer_ndarray(x).ndint_compress, method=m, axis=0, what=f"ndint_compress({m})")).tolist() for x in a]
        ok = [per_member]
        if m in ("first", "last"):
            fn = _first if m == "first" else (lambda l: _first(l[::-1]))
            ok.append([[fn([a[g][r][c] for g in range(len(a))]) for c in range(len(a[0][0]))] for r in range(len(a[0]))])
        if R not in ok:
            raise Violation(f"{m} on a stack of {len(a)} matrices (axis=0): got {R}, the per-matrix results are {per_member}; input {a}")
    if "first" in methods:
        # 'min' / 'max' have no stack form: on 3-D input they reduce along the requested axis itself (numpy's min / max),
        # i.e. the smallest non-zero / the largest entry of every lane along that axis
        g, r, c_ = len(a), len(a[0]), len(a[0][0])
        for axis in (0, 1, 2):
            lanes = {0: [[[a[k][i][j] for k in range(g)] for j in range(c_)] for i in range(r)],
                     1: [[[a[k][i][j] for i in range(r)] for j in range(c_)] for k in range(g)],
                     2: [[[a[k][i][j] for j in range(c_)] for i in range(r)] for k in range(g)]}[axis]
            for m, fn in (("min", _min_nz), ("max", max)):
                R = np.asarray(call(pnd.integer_ndarray(a).ndint_compress, method=m, axis=axis, what=f"ndint_compress({m}) on 3-D input")).tolist()
                E = [[fn(l) for l in row] for row in lanes]
                if R != E:
                    raise Violation(f"{m} axis={axis} on 3-D input: got {R}, expected {E} ({'smallest non-zero' if m == 'min' else 'largest'} entry of every "
                                    f"lane along the axis); input {a}")
    flat = _flatten(a)
    differ = len(a) >= 2 and any(a[0] != x for x in a[1:])
    ev.case(case, differ and any(x < 0 for x in flat) and any(x == 0 for x in flat), ["shape=3d/axis=0", f"members={len(a)}"] + (["members_differ"] if differ else []))


def check_prio_rank(case, ev):
    pnd, np = _mods()
    a, axis = case["a"], case["axis"]
    if case.get("batch"):
        return check_batch(case, ev, ("prio", "rank"))
    nd = _ndim(a)
    if nd == 1 and axis == 0:
        return check_prio_rank_vector(case, ev)
    views = views_of(a, axis)
    ks = keys_of(views[0])
    n_out = len(ks)
    exp = expected_prio(ks)
    P = call(pnd.integer_ndarray(a).ndint_compress, method="prio", axis=axis, what="ndint_compress(prio)")
    p = _as_ints(np, P, (n_out,), "prio", case)
    if p != exp:
        raise Violation(f"prio axis={axis}: got {p}, expected the signed dense rank of (level of last non-zero, "
                        f"|value|) = {exp}; input {a}")
    Rk = call(pnd.integer_ndarray(a).ndint_compress, method="rank", axis=axis, what="ndint_compress(rank)")
    rk = _as_ints(np, Rk, (n_out,), "rank", case)
    for i in range(n_out):
        for j in range(n_out):
            if (exp[i] < exp[j]) != (rk[i] < rk[j]) or (exp[i] == exp[j]) != (rk[i] == rk[j]):
                raise Violation(f"rank axis={axis}: ranks {rk} do not preserve the order of the prio vector {exp} "
                                f"(positions {i},{j}); input {a}")
    distinct = sorted(set(rk))
    if distinct[0] not in (0, 1) or distinct != list(range(distinct[0], distinct[0] + len(distinct))):
        raise Violation(f"rank axis={axis}: ranks {rk} are not dense from 0 or 1; prio vector {exp}; input {a}")
    cls, nontrivial = _key_classes([ks], views)
    ev.case(case, nontrivial, [f"shape={nd}d/axis={axis}"] + cls)


def check_prio_rank_vector(case, ev):
    """1-D input with an explicit axis=0: which ordering the dense ranking follows is not documented for this form (the code
    ranks the raw signed values, the one-row 2-D form ranks by magnitude and keeps the sign). Either is accepted; what the
    statement demands in every reading is an ORDER-PRESERVING DENSE ranking: equal entries equal ranks, ranks consecutive."""
    pnd, np = _mods()
    a = case["a"]
    one_row = expected_prio(keys_of([a]))
    for m in ("prio", "rank"):
        R = call(pnd.integer_ndarray(a).ndint_compress, method=m, axis=0, what=f"ndint_compress({m}) on a vector, axis=0")
        r = _as_ints(np, R, (len(a),), f"{m} on a vector", case)
        if m == "prio" and r == one_row:
            continue
        for i in range(len(a)):
            for j in range(len(a)):
                if (a[i] < a[j]) != (r[i] < r[j]) or (a[i] == a[j]) != (r[i] == r[j]):
                    raise Violation(f"{m} on a vector (axis=0): ranks {r} do not preserve the order of the entries {a} (positions {i},{j})")
        distinct = sorted(set(r))
        if distinct and (distinct[0] not in (0, 1) or distinct != list(range(distinct[0], distinct[0] + len(distinct)))):
            raise Violation(f"{m} on a vector (axis=0): ranks {r} are not a dense ranking (consecutive from 0 or 1); input {a}")
    ev.case(case, len(set(a)) >= 3 and len(set(a)) < len(a), ["shape=1d/axis=0"] + (["negative"] if any(x < 0 for x in a) else []) + (["tie"] if len(set(a)) < len(a) else []))


def _first(line):
    for x in line:
        if x != 0:
            return x
    return 0


def _min_nz(line):
    nz = [x for x in line if x != 0]
    return min(nz) if nz else 0


def check_select(case, ev):
    pnd, np = _mods()
    a, axis = case["a"], case["axis"]
    if case.get("batch"):
        return check_batch(case, ev, ("first", "last"))
    nd = _ndim(a)
    if nd == 2 and axis in (0, 1):
        lines = _transpose(a) if axis == 0 else [list(r) for r in a]
        methods = ("first", "last", "min", "max")
        shape = (len(lines),)
    elif nd == 2:  # axis None: documented for 'min' (flattened, every entry is its own line)
        lines = [[x] for x in _flatten(a)]
        methods = ("min",)
        shape = (len(lines),)
    else:  # 1-D, axis 0: one line, scalar result
        lines = [list(a)]
        methods = ("min", "max")
        shape = ()
    oracle = {"first": _first, "last": lambda l: _first(l[::-1]), "min": _min_nz, "max": max}
    for m in methods:
        exp = [oracle[m](l) for l in lines]
        R = call(pnd.integer_ndarray(a).ndint_compress, method=m, axis=axis, what=f"ndint_compress({m})")
        got = _as_ints(np, R, shape, m, case)
        if shape == ():
            got = [got]
        if got != exp:
            raise Violation(f"{m} axis={axis}: got {got if shape else got[0]}, expected {exp if shape else exp[0]} "
                            f"({'first non-zero' if m == 'first' else 'last non-zero' if m == 'last' else 'smallest non-zero' if m == 'min' else 'largest entry'} "
                            f"along the axis, 0 if none); input {a}")
    flat = _flatten(a)
    ends_differ = any(_first(l) != _first(l[::-1]) for l in lines)
    cls = [f"shape={nd}d/axis={axis}"]
    if ends_differ:
        cls.append("first!=last")
    if any(x < 0 for x in flat):
        cls.append("negative")
    if any(all(x == 0 for x in l) for l in lines):
        cls.append("allzero_line")
    if any(_min_nz(l) not in (_first(l), _first(l[::-1])) for l in lines):
        cls.append("min_is_interior")
    if any(abs(x) > 1000 for x in flat):
        cls.append("large_magnitude")
    nontrivial = ends_differ and any(x < 0 for x in flat) and any(x == 0 for x in flat)
    ev.case(case, nontrivial, cls)


# ----------------------------------------------------------------------------------------------
# generators
# ----------------------------------------------------------------------------------------------

@st.composite
def _pool(draw):
    mags = list(draw(st.sampled_from([[1], [1, 2], [1, 2, 3], [1, 2, 3], [1, 2, 3, 4, 5], [2, 7], [1, 3, 9]])))
    if draw(st.integers(0, 4)) == 0:
        mags += draw(st.lists(st.integers(4, 10 ** 6), min_size=1, max_size=3))
        if draw(st.booleans()):
            mags.append(10 ** 6)
    signs = draw(st.sampled_from(["mixed", "mixed", "mixed", "pos", "neg"]))
    vals = []
    for m in mags:
        if signs != "neg":
            vals.append(m)
        if signs != "pos":
            vals.append(-m)
    zeros = draw(st.sampled_from([1, 2, 4, 8]))
    return [0] * max(1, (zeros * len(vals)) // 4) + vals


@st.composite
def _matrix(draw, nr, nc, pool=None):
    pool = pool or draw(_pool())
    cell = st.sampled_from(pool)
    a = draw(st.lists(st.lists(cell, min_size=nc, max_size=nc), min_size=nr, max_size=nr))
    z = draw(st.integers(0, 9))
    if z == 0:
        r = draw(st.integers(0, nr - 1))
        a[r] = [0] * nc
    elif z == 1:
        c = draw(st.integers(0, nc - 1))
        for row in a:
            row[c] = 0
    elif z == 2 and draw(st.integers(0, 3)) == 0:
        a = [[0] * nc for _ in range(nr)]
    return a


@st.composite
def _vector(draw, allow_long=False):
    if allow_long and draw(st.integers(0, 11)) == 0:
        # near the 64-bit proviso: 52-68 distinct magnitudes
        n = draw(st.integers(56, 68))
        vals = list(range(1, n + 1))
        for _ in range(draw(st.integers(0, 4))):
            i = draw(st.integers(0, n - 1))
            vals[i] = draw(st.sampled_from([0, vals[draw(st.integers(0, n - 1))]]))
        negs = draw(st.lists(st.integers(0, n - 1), max_size=6))
        for i in negs:
            vals[i] = -vals[i]
        return list(draw(st.permutations(vals)))
    if allow_long and draw(st.integers(0, 7)) == 0:
        # many levels WITH ties: weights grow like 3^k (two columns per level) or irregularly, i.e. far beyond 2^53 while
        # still inside 64 bits and not powers of two - anything computed in floating point on the way is visibly rounded
        uniform = draw(st.booleans())
        levels = draw(st.integers(33, 39)) if uniform else draw(st.integers(28, 38))
        vals = []
        for lv in range(1, levels + 1):
            mult = 2 if uniform else draw(st.sampled_from([2, 2, 2, 1, 3]))
            vals += [lv * draw(st.sampled_from([1, -1])) for _ in range(mult)]
        return list(draw(st.permutations(vals)))
    if allow_long and draw(st.integers(0, 11)) == 0:
        # huge, close-together magnitudes (time stamps, packed counters): distinct levels that one float64 cannot tell apart
        base = draw(st.sampled_from([2 ** 53, 2 ** 60, 1_760_000_000_000_000_000, 2 ** 62]))
        n = draw(st.integers(2, 8))
        offs = draw(st.lists(st.integers(0, 40), min_size=n, max_size=n))
        return [(base + o) * draw(st.sampled_from([1, 1, -1])) if draw(st.integers(0, 4)) else 0 for o in offs]
    n = draw(st.integers(1, 12))
    return draw(_matrix(1, n))[0]


def _dims(draw):
    if draw(st.integers(0, 11)) == 0:
        # MANY lanes (items): around the round numbers at which implementations switch strategy
        return draw(st.integers(1, 4)), draw(st.sampled_from([63, 64, 65, 66, 100, 128, 129, 257, 300]))
    return draw(st.integers(1, 5)), draw(st.integers(1, 8))


@st.composite
def _staircase(draw):
    """lexicographic levels written the natural way: 3-7 rows, every row owning its own few columns (staircase / diagonal),
    values from a tiny set so that the largest value of one row equals the smallest of the next, rows sometimes empty or
    fully overridden in between"""
    nr = draw(st.integers(3, 7))
    vals = draw(st.sampled_from([[1], [1], [1, 2], [2], [1, 2, 3], [3, 3, 5]]))
    rows, width = [], 0
    owners = []
    for r in range(nr):
        w = draw(st.sampled_from([0, 1, 1, 1, 2, 2, 3]))
        owners.append((width, width + w))
        width += w
    width = max(width, 1)
    for r, (a, b) in enumerate(owners):
        row = [0] * width
        for c in range(a, b):
            row[c] = draw(st.sampled_from(vals)) * draw(st.sampled_from([1, 1, 1, -1]))
        if draw(st.integers(0, 4)) == 0 and a > 0:
            row[draw(st.integers(0, a - 1))] = draw(st.sampled_from(vals))      # overrides an earlier level's column
        rows.append(row)
    return rows


@st.composite
def shadow_case(draw):
    if draw(st.integers(0, 7)) == 0:
        a = draw(_staircase())
        ax = draw(st.sampled_from([0, 0, 1]))
        if ax == 1:
            a = _transpose(a)
        return {"a": a, "axis": ax}
    kind = draw(st.sampled_from(["1d/None", "1d/0", "2d/0", "2d/0", "2d/1", "2d/1", "2d/None", "3d/0", "3d/cfg"]))
    alias = draw(st.integers(0, 4)) == 0
    if kind.startswith("1d"):
        case = {"a": draw(_vector(allow_long=True)), "axis": None if kind == "1d/None" else 0}
    elif kind.startswith("2d"):
        nr, nc = _dims(draw)
        if kind == "2d/1":
            nr, nc = nc, nr  # levels run along axis 1: 1-8 output rows x 1-5 levels
        case = {"a": draw(_matrix(nr, nc)), "axis": {"2d/0": 0, "2d/1": 1, "2d/None": None}[kind]}
    elif kind == "3d/0":
        nr, nc = _dims(draw)
        pool = draw(_pool())
        nb = draw(st.integers(1, 3))
        case = {"a": [draw(_matrix(nr, nc, pool)) for _ in range(nb)], "axis": 0}
    else:
        # the form built by ge_polyhedron_config._vectors_from_prios: (n_prios, 2, n_cols), first row = default -1
        nc = draw(st.integers(1, 8))
        nb = draw(st.integers(1, 3))
        pool = draw(_pool())
        case = {"a": [[[-1] * nc, draw(_matrix(1, nc, pool))[0]] for _ in range(nb)], "axis": 0, "cfg": True}
    if alias:
        case["alias"] = True
    return case


@st.composite
def _batch_case(draw):
    """a stack of 1-3 matrices of one shape, axis 0 (the form _vectors_from_prios uses for 'shadow')"""
    nr, nc = draw(st.integers(1, 4)), draw(st.integers(1, 5))
    pool = draw(_pool())
    return {"a": [draw(_matrix(nr, nc, pool)) for _ in range(draw(st.integers(1, 3)))], "axis": 0, "batch": True}


@st.composite
def prio_rank_case(draw):
    kind = draw(st.sampled_from(["1d/None", "1d/0", "2d/0", "2d/0", "2d/1", "2d/1", "2d/None", "3d/0"]))
    if kind == "1d/None":
        return {"a": draw(_vector()), "axis": None}
    if kind == "1d/0":
        return {"a": draw(_vector()), "axis": 0}
    if kind == "3d/0":
        return draw(_batch_case())
    nr, nc = _dims(draw)
    if kind == "2d/1":
        nr, nc = nc, nr
    return {"a": draw(_matrix(nr, nc)), "axis": {"2d/0": 0, "2d/1": 1, "2d/None": None}[kind]}


@st.composite
def select_case(draw):
    kind = draw(st.sampled_from(["2d/0", "2d/0", "2d/0", "2d/1", "2d/1", "2d/1", "1d/0", "2d/None", "3d/0", "3d/0"]))
    if kind == "1d/0":
        return {"a": draw(_vector()), "axis": 0}
    if kind == "3d/0":
        return draw(_batch_case())
    nr, nc = _dims(draw)
    if kind == "2d/1":
        nr, nc = nc, nr
    return {"a": draw(_matrix(nr, nc)), "axis": {"2d/0": 0, "2d/1": 1, "2d/None": None}[kind]}


def parts(tier):
    return [
        Part("shadow", strategy=lambda t: shadow_case(), check=check_shadow, quick=(8, 500), thorough=(16, 12000)),
        Part("prio_rank", strategy=lambda t: prio_rank_case(), check=check_prio_rank, quick=(4, 500),
             thorough=(8, 12000)),
        Part("select", strategy=lambda t: select_case(), check=check_select, quick=(4, 500), thorough=(8, 12000)),
    ]
