"""C19 - Point classification agrees with A x >= b in every input shape.

Code under test: ``ge_polyhedron.ineqs_satisfied`` / ``separable`` / ``ineq_separate_points`` and the module level
aliases ``puan.ndarray.separable`` / ``puan.ndarray.ineq_separate_points``.

For a matrix ``[b | A]`` and integer points the oracle computes, with Python ints, ``holds[g][p][r] = (A[r].x >= b[r])``
for every group g, point p and row r and derives

* ``ineqs_satisfied``      -> all_r holds            : scalar (1-D input) / (points,) / (groups, points)
* ``separable``            -> not all_r holds        : same shapes
* ``ineq_separate_points`` -> any_p not holds[.][p][r]: (rows,) for 1-D and 2-D input / (groups, rows) for 3-D
"""
from hypothesis import strategies as st

from vf.core import Part, Violation, call

PROPERTY = "C19"
RULE = ("Hypothesis draws an integer matrix [b|A] with 1-5 rows x 1-5 columns and a points array of ndim 1, 2 (1-5 "
        "points) or 3 (1-3 groups x 1-5 points). Coefficients/points are small (-3..3 / -2..3), one case in eight "
        "mixes in magnitudes up to 10^4. Two flavours: 'random' (b drawn like the coefficients) and 'anchored' (an "
        "anchor point p0 is drawn, b_r = A_r.p0 + delta_r with delta mostly <= 0 and often 0, and the points are p0, "
        "one-coordinate neighbours of p0 or random points) so that fully satisfied points, violated points and tight "
        "rows (A_r.x == b_r) are all common. The polyhedron is built with default variables or with an explicit "
        "variable list (support variable first); one case in four goes through the module level aliases. Oracle: "
        "per point and row Python-int arithmetic; values and np.shape of all three results are compared. "
        "Part 'derived': after a first query other polyhedra are derived from the queried one the numpy way (row reversal, row "
        "selection, copy+edit, scaling) or it is edited in place, and each is classified against its own matrix (a cache of A/b "
        "that outlives an edit or leaks into derived arrays is visible only this way). "
        "Non-trivial = both a satisfied and a violated (point,row) pair occur; distinct = SHA-1 of the canonical "
        "case JSON.")
ASSUMPTIONS = [
    "points are numpy int64 arrays whose last dimension equals the number of columns of A; products stay far below 2^63",
    "for 1-D input ineqs_satisfied/separable may return a numpy bool scalar or a Python bool (np.shape == ())",
    "truth values are compared after bool(); the concrete result class/dtype (boolean_ndarray 0/1 vs numpy bool) is "
    "not asserted",
    "there is no module level alias for ineqs_satisfied; only separable and ineq_separate_points have one",
]

IDS = ["x", "y", "z", "å", "v4", "", "w w", "q", "7"]


def _ndim(a):
    d = 0
    while isinstance(a, list):
        d += 1
        a = a[0]
    return d


def _bools(x):
    if isinstance(x, list):
        return [_bools(y) for y in x]
    return bool(x)


def _mods():
    import numpy as np
    import puan
    import puan.ndarray as pnd
    return puan, pnd, np


def _poly(case):
    puan, pnd, np = _mods()
    kw = {}
    if case.get("mdtype"):
        kw["dtype"] = getattr(np, case["mdtype"])       # the matrix held in a narrower integer type (constructor parameter)
    if case.get("vars"):
        vs = [puan.variable.support_vector_variable()] + [puan.variable(v[0], (v[1], v[2])) for v in case["vars"]]
        return pnd.ge_polyhedron(case["m"], variables=vs, **kw)
    return pnd.ge_polyhedron(case["m"], **kw)


def _expected(M, pts):
    nd = _ndim(pts)
    groups = [[pts]] if nd == 1 else [pts] if nd == 2 else pts
    n_rows = len(M)
    n_pts = len(groups[0])
    A = [[int(x) for x in row[1:]] for row in M]
    b = [int(row[0]) for row in M]
    lhs = [[[sum(a * int(x) for a, x in zip(A[r], p)) for r in range(n_rows)] for p in g] for g in groups]
    holds = [[[lhs[gi][pi][r] >= b[r] for r in range(n_rows)] for pi in range(len(g))] for gi, g in enumerate(groups)]
    sat = [[all(h) for h in g] for g in holds]
    sep = [[not x for x in g] for g in sat]
    isp = [[any(not h[r] for h in g) for r in range(n_rows)] for g in holds]
    if nd == 1:
        exp = {"ineqs_satisfied": (sat[0][0], ()), "separable": (sep[0][0], ()), "ineq_separate_points": (isp[0], (n_rows,))}
    elif nd == 2:
        exp = {"ineqs_satisfied": (sat[0], (n_pts,)), "separable": (sep[0], (n_pts,)),
               "ineq_separate_points": (isp[0], (n_rows,))}
    else:
        exp = {"ineqs_satisfied": (sat, (len(groups), n_pts)), "separable": (sep, (len(groups), n_pts)),
               "ineq_separate_points": (isp, (len(groups), n_rows))}
    return exp, dict(nd=nd, groups=groups, n_rows=n_rows, n_pts=n_pts, lhs=lhs, holds=holds, sat=sat, isp=isp, b=b)


def _compare(name, r, exp, info, M, pts, note=""):
    puan, pnd, np = _mods()
    want, shape = exp[name]
    nd, lhs, b = info["nd"], info["lhs"], info["b"]
    got_shape = tuple(int(s) for s in np.shape(r))
    got = _bools(np.asarray(r).tolist())
    if got_shape != shape:
        raise Violation(f"{note}{name}: result shape {got_shape}, expected {shape} for points of ndim {nd}; matrix {M}; "
                        f"points {pts}; result {got}")
    if got != want:
        raise Violation(f"{note}{name}: got {got}, expected {want}; matrix [b|A] {M}; points {pts}; "
                        f"A.x per point {lhs if nd == 3 else lhs[0] if nd == 2 else lhs[0][0]} vs b {b}")


def _pts_dtype(np, pts, case):
    if case.get("flavour") == "extreme":
        return np.int64
    """points arrive as int64, or as the narrowest signed integer dtype that holds them (callers slice them out of int16
    / int32 arrays); the classification must not depend on that"""
    flat = []

    def rec(x):
        if isinstance(x, list):
            for y in x:
                rec(y)
        else:
            flat.append(int(x))
    rec(pts)
    if (len(flat) + sum(abs(v) for v in flat)) % 2 == 0:
        return np.int64
    m = max([abs(v) for v in flat] + [0])
    for t in (np.int8, np.int16, np.int32):
        if m <= np.iinfo(t).max:
            return t
    return np.int64


def check_points(case, ev):
    puan, pnd, np = _mods()
    M, pts = case["m"], case["pts"]
    exp, info = _expected(M, pts)
    nd, groups, n_rows, n_pts, lhs, holds, sat, isp, b = (info[k] for k in ("nd", "groups", "n_rows", "n_pts", "lhs", "holds", "sat", "isp", "b"))
    alias = bool(case.get("alias"))
    for name in ("ineqs_satisfied", "separable", "ineq_separate_points"):
        P = call(_poly, case, what="ge_polyhedron construction")
        X = np.array(pts, dtype=_pts_dtype(np, pts, case))
        # the points may also arrive in one of the library's own array types (what boolean_ndarray.from_list,
        # get_neighbourhood or an earlier construct() hand back): same numbers, default column labels
        form = (len(str(pts)) + len(M)) % 4
        if form == 1:
            X = pnd.integer_ndarray(X)
        elif form == 2 and all(v in (0, 1) for v in np.asarray(X).reshape(-1).tolist()):
            X = pnd.boolean_ndarray(X)
        if alias and name != "ineqs_satisfied":
            r = call(getattr(pnd, name), P, X, what=f"puan.ndarray.{name}")
        else:
            r = call(getattr(P, name), X, what=name)
        _compare(name, r, exp, info, M, pts)
    flat = [h for g in holds for p in g for h in p]
    cls = [f"ndim={nd}", "vars=explicit" if case.get("vars") else "vars=default", f"flavour={case.get('flavour')}"]
    if alias:
        cls.append("alias")
    if any(x for g in sat for x in g):
        cls.append("some_point_satisfies_all")
    if any(not x for g in sat for x in g):
        cls.append("some_point_violates")
    if any(lhs[gi][pi][r] == b[r] for gi, g in enumerate(groups) for pi in range(len(g)) for r in range(n_rows)):
        cls.append("tight_row")
    if any(any(x for x in g) and not all(x for x in g) for g in isp):
        cls.append("rows_differ_in_group")
    if any(any(x for x in g) and not all(x for x in g) for g in sat):
        cls.append("points_differ_in_group")
    if n_rows != n_pts:
        cls.append("rows!=points")
    if any(abs(x) > 100 for row in M for x in row):
        cls.append("large_magnitude")
    ev.case(case, any(flat) and not all(flat), cls)


@st.composite
def points_case(draw):
    nr = draw(st.integers(1, 5))
    nc = draw(st.integers(1, 5))
    big = draw(st.integers(0, 7)) == 0
    coef = st.integers(-3, 3)
    coord = st.integers(-2, 3)
    if big:
        coef = st.one_of(coef, st.integers(-10 ** 4, 10 ** 4))
        coord = st.one_of(coord, st.integers(-10 ** 4, 10 ** 4))
    A = draw(st.lists(st.lists(coef, min_size=nc, max_size=nc), min_size=nr, max_size=nr))
    nd = draw(st.sampled_from([1, 2, 3]))
    ng = draw(st.integers(1, 3)) if nd == 3 else 1
    npts = draw(st.integers(1, 5)) if nd >= 2 else 1
    point = st.lists(coord, min_size=nc, max_size=nc)
    flavour = draw(st.sampled_from(["random", "anchored", "anchored"]))
    if flavour == "random":
        b = draw(st.lists(coef, min_size=nr, max_size=nr))
        groups = [[draw(point) for _ in range(npts)] for _ in range(ng)]
    else:
        p0 = draw(point)
        deltas = draw(st.lists(st.sampled_from([-3, -1, -1, 0, 0, 0, 0, 1]), min_size=nr, max_size=nr))
        b = [sum(a * x for a, x in zip(A[r], p0)) + deltas[r] for r in range(nr)]
        groups = []
        for _ in range(ng):
            g = []
            for _ in range(npts):
                how = draw(st.sampled_from(["p0", "p0", "nb", "nb", "nb", "rnd"]))
                if how == "p0":
                    g.append(list(p0))
                elif how == "nb":
                    q = list(p0)
                    q[draw(st.integers(0, nc - 1))] += draw(st.sampled_from([-1, 1]))
                    g.append(q)
                else:
                    g.append(draw(point))
            groups.append(g)
    M = [[b[r]] + A[r] for r in range(nr)]
    pts = groups[0][0] if nd == 1 else groups[0] if nd == 2 else groups
    case = {"m": M, "pts": pts, "flavour": flavour}
    if draw(st.booleans()):
        ids = draw(st.permutations(IDS))[:nc]
        vs = []
        for i in ids:
            lo = draw(st.integers(-5, 5))
            vs.append([i, lo, lo + draw(st.integers(0, 6))])
        case["vars"] = vs
    if draw(st.integers(0, 3)) == 0:
        case["alias"] = True
    mx = max(abs(x) for row in M for x in row)
    md = draw(st.sampled_from([None, None, "int16", "int32"]))
    if md and mx <= (32767 if md == "int16" else 2 ** 31 - 1):
        case["mdtype"] = md
    return case


@st.composite
def scale_points_case(draw):
    """ONE dimension large: many groups in a stack (65-300), many points in a matrix (300-2000), many rows (65-300) or many
    columns (65-300); values from a seeded pattern so that the violation pattern is not uniform over groups / rows"""
    dim = draw(st.sampled_from(["groups", "groups", "points", "rows", "cols"]))
    big = draw(st.sampled_from([65, 66, 100, 128, 129, 257, 300]))
    nr = big if dim == "rows" else draw(st.integers(2, 4))
    nc = big if dim == "cols" else draw(st.integers(2, 4))
    s = draw(st.integers(1, 10 ** 6))

    def rnd(k, lo, hi):
        return lo + (s * (k + 17) * 2654435761 >> 7) % (hi - lo + 1)
    A = [[(rnd(r * nc + c, -2, 3) if (dim != "cols" or rnd(7 * r + c, 0, 9) < 2) else 0) for c in range(nc)] for r in range(nr)]
    b = [rnd(1000 + r, -2, 4) for r in range(nr)]
    M = [[b[r]] + A[r] for r in range(nr)]
    if dim == "groups":
        ng, npts = big, draw(st.integers(1, 3))
        pts = [[[rnd(g * 31 + p * 7 + c, 0, 2) for c in range(nc)] for p in range(npts)] for g in range(ng)]
    elif dim == "points":
        npts = draw(st.sampled_from([300, 1000, 2000]))
        pts = [[rnd(p * 5 + c, -1, 2) for c in range(nc)] for p in range(npts)]
    else:
        nd = draw(st.sampled_from([1, 2, 3]))
        one = lambda k: [rnd(k * 13 + c, 0, 2) for c in range(nc)]
        pts = one(1) if nd == 1 else ([one(p) for p in range(3)] if nd == 2 else [[one(g * 3 + p) for p in range(2)] for g in range(3)])
    return {"m": M, "pts": pts, "flavour": "scale:" + dim}


@st.composite
def sparse_wide_case(draw):
    """wide, sparse systems the way they are written for many variables: 2-6 rows over 8-26 columns, 1-3 non-zero
    coefficients per row; range constraints as two rows on one column (x >= 1, -x >= -3) and implication chains
    (-a + b >= 0, -b + c >= 0) so that columns whose coefficients cancel over the rows are common"""
    nc = draw(st.integers(8, 26))
    rows = []
    for _ in range(draw(st.integers(1, 3))):
        kind = draw(st.sampled_from(["range", "chain", "free", "free"]))
        if kind == "range":
            j = draw(st.integers(0, nc - 1))
            lo = draw(st.integers(-2, 2))
            a1 = [0] * nc
            a1[j] = 1
            a2 = [0] * nc
            a2[j] = -1
            rows += [[lo] + a1, [-(lo + draw(st.integers(0, 3)))] + a2]
        elif kind == "chain":
            js = draw(st.lists(st.integers(0, nc - 1), min_size=2, max_size=4, unique=True))
            for x, y in zip(js, js[1:]):
                a = [0] * nc
                a[x], a[y] = -1, 1
                rows.append([0] + a)
        else:
            a = [0] * nc
            for j in draw(st.lists(st.integers(0, nc - 1), min_size=1, max_size=3, unique=True)):
                a[j] = draw(st.sampled_from([1, -1, 2, -2, 3]))
            rows.append([draw(st.integers(-2, 3))] + a)
    rows = list(draw(st.permutations(rows)))[:6]
    nd = draw(st.sampled_from([1, 2, 3]))
    ng = draw(st.integers(1, 2)) if nd == 3 else 1
    npts = draw(st.integers(1, 4)) if nd >= 2 else 1
    coord = st.sampled_from([0, 0, 1, 1, 2, 3, -1, 4])
    groups = [[[draw(coord) for _ in range(nc)] for _ in range(npts)] for _ in range(ng)]
    pts = groups[0][0] if nd == 1 else groups[0] if nd == 2 else groups
    return {"m": rows, "pts": pts, "flavour": "sparse_wide"}


@st.composite
def extreme_case(draw):
    """rows with ONE non-zero coefficient and magnitudes near the end of int64: every A.x and every b fits int64, but
    their difference need not"""
    nr = draw(st.integers(1, 4))
    nc = draw(st.integers(1, 3))
    big = st.sampled_from([10 ** 18, 15 * 10 ** 17, 2 * 10 ** 18, 3 * 10 ** 18, 2 ** 62, 2 ** 61 + 12345, 9 * 10 ** 17])
    sgn = st.sampled_from([1, -1])
    A, b = [], []
    for _ in range(nr):
        row = [0] * nc
        j = draw(st.integers(0, nc - 1))
        row[j] = draw(st.sampled_from([1, 2, 3, -1, -2, -3]))
        A.append(row)
        b.append(draw(sgn) * draw(st.sampled_from([6 * 10 ** 18, 4 * 10 ** 18, 9 * 10 ** 18, 2 ** 62, 10 ** 18, 0, 5])))
    nd = draw(st.sampled_from([1, 2, 3]))
    ng = draw(st.integers(1, 2)) if nd == 3 else 1
    npts = draw(st.integers(1, 3)) if nd >= 2 else 1
    groups = [[[draw(sgn) * draw(big) if draw(st.booleans()) else draw(st.integers(-3, 3)) for _ in range(nc)] for _ in range(npts)]
              for _ in range(ng)]
    # keep every product inside int64
    for g in groups:
        for p_ in g:
            for r in range(nr):
                for j in range(nc):
                    if abs(A[r][j] * p_[j]) >= 2 ** 63:
                        p_[j] = p_[j] // 4
    M = [[b[r]] + A[r] for r in range(nr)]
    pts = groups[0][0] if nd == 1 else groups[0] if nd == 2 else groups
    return {"m": M, "pts": pts, "flavour": "extreme"}


def check_derived(case, ev):
    """A polyhedron is queried, then other polyhedra are derived from it the numpy way (row reversal, row selection,
    copy + edit, scaling) or it is edited in place, and every one of them is classified against ITS OWN matrix."""
    puan, pnd, np = _mods()
    M = [list(r) for r in case["m"]]
    pts = case["pts"]
    X = np.array(pts, dtype=np.int64)
    P = call(_poly, case, what="ge_polyhedron construction")
    names = ("ineqs_satisfied", "separable", "ineq_separate_points")
    exp, info = _expected(M, pts)
    for name in names:
        _compare(name, call(getattr(P, name), X, what=name), exp, info, M, pts, "first query: ")
    n_ops = 0
    for op in case["ops"]:
        k = op[0]
        if k == "reverse":
            Q, MQ = P[::-1], M[::-1]
        elif k == "rows":
            idx = [i % len(M) for i in op[1]] or [0]
            Q, MQ = P[idx], [M[i] for i in idx]
        elif k == "copy_edit":
            r, c, d = op[1] % len(M), op[2] % len(M[0]), op[3]
            Q = P.copy()
            Q[r, c] += d
            MQ = [list(row) for row in M]
            MQ[r][c] += d
        elif k == "scale":
            Q, MQ = P * op[1], [[x * op[1] for x in row] for row in M]
        else:   # in place edit of the queried polyhedron itself
            r, c, d = op[1] % len(M), op[2] % len(M[0]), op[3]
            P[r, c] += d
            M[r][c] += d
            Q, MQ = P, M
        if np.asarray(Q).tolist() != MQ:
            continue      # the derivation itself is numpy's business; only classification is judged
        n_ops += 1
        e2, i2 = _expected(MQ, pts)
        for name in names:
            _compare(name, call(getattr(Q, name), X, what=name), e2, i2, MQ, pts, f"after {k}: ")
    flat = [h for g in info["holds"] for p in g for h in p]
    ev.case(case, n_ops >= 1 and any(flat) and not all(flat), [f"ndim={info['nd']}", "ops=%d" % n_ops] + ["op:" + o[0] for o in case["ops"]])


@st.composite
def derived_case(draw):
    case = draw(points_case())
    case.pop("alias", None)
    ops = []
    for _ in range(draw(st.integers(1, 3))):
        # (row selection by plain indexing is not generated: the row index is not masked by numpy, the library's own
        #  reduce_rows passes it explicitly, and .A then refuses the inconsistent object)
        k = draw(st.sampled_from(["reverse", "copy_edit", "scale", "edit", "edit"]))
        if k == "reverse":
            ops.append(["reverse"])
        elif k == "rows":
            ops.append(["rows", draw(st.lists(st.integers(0, 4), min_size=1, max_size=4))])
        elif k == "scale":
            ops.append(["scale", draw(st.sampled_from([2, 3, -1]))])
        else:
            ops.append([k, draw(st.integers(0, 4)), draw(st.integers(0, 5)), draw(st.sampled_from([-2, -1, 1, 2, 3]))])
    case["ops"] = ops
    return case


def parts(tier):
    return [Part("derived", strategy=lambda t: derived_case(), check=check_derived, quick=(3, 500), thorough=(6, 8000)),
            Part("extreme", strategy=lambda t: extreme_case(), check=check_points, quick=(1, 400), thorough=(2, 5000)),
            Part("scale", strategy=lambda t: scale_points_case(), check=check_points, quick=(1, 60), thorough=(2, 800)),
            Part("sparse_wide", strategy=lambda t: sparse_wide_case(), check=check_points, quick=(2, 400), thorough=(4, 5000)),
            Part("points", strategy=lambda t: points_case(), check=check_points, quick=(8, 700), thorough=(16, 20000))]
