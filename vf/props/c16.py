"""C16 - JSON round trip preserves meaning, explicit ids and defaults."""
import json

from hypothesis import strategies as st

from vf import build, oracle, strategies as S
from vf.core import Part, Violation, call
from vf.props import common

PROPERTY = "C16"
RULE = ("Part 'cfg_shapes': ENUMERATED configurators with one defaulted/plain configurator Any/Xor (2-4 members incl. integer/constant/compound members, every default variant) at top level, as consequence, as condition and below every connective (Any, All, AtLeast, AtMost, Xor, XNor, Not); compared modulo generated ids, rows as a sorted list. Parts 'shapes*': EXHAUSTIVE enumeration of every single threshold node (AtLeast with value -2..3 and sign +1/-1/default, AtMost "
        "-2..2, All, Any over a boolean and an integer leaf with negative lower bound, explicit/generated id) alone and inside "
        "every connective (Imply condition/consequence, Not, double Not, XNor, Xor, All, Any, AtMost, AtLeast). "
        "Part 'models': Hypothesis generates validated model DAG specs over every class of the JSON class map (AtLeast with "
        "explicit/default sign, AtMost, All, Any, Xor, ExactlyOne, XNor, Imply with str/variable/compound consequence, Not), "
        "nesting <=3/4, integer leaves, explicit and generated ids; path to_json -> json.dumps -> json.loads -> from_json. "
        "Oracle: same leaf ids with same bounds; identical reference arithmetic value of original and reloaded object on every "
        "assignment (enumerated up to the guard, else drawn) plus puan's evaluate on a few; every explicit id of the original "
        "occurs in the reloaded model; no 'id' is emitted for a sub-proposition whose id was generated. Part 'configurators': "
        "Hypothesis generates StingyConfigurator specs (defaulted/plain Any/Xor, Imply with defaulted consequence, nested); "
        "StingyConfigurator.from_json(loads(dumps(to_json()))) must have the same leaves/truth table, the same defaults, the "
        "same default_prios and the same polyhedron (matrix, column ids/bounds, default prio vector), every functools cache "
        "being cleared between the two sides. Non-trivial = nesting >=2 with a negating connective, or an explicitly signed "
        "AtLeast whose sign differs from the value-derived default, or a configurator with a default below the top level; "
        "distinct = SHA-1 of the canonical case JSON.")
ASSUMPTIONS = ["structure and generated-id flags of the reloaded object are not compared (Imply serialises the double negation "
               "of its condition); only meaning, leaf sets, explicit ids, defaults, default prios and polyhedron"]


def roundtrip(obj, loader):
    doc = call(obj.to_json, what="to_json")
    try:
        text = json.dumps(doc)
    except Exception as e:
        raise Violation(f"to_json() result is not serialisable by json.dumps: {type(e).__name__}: {e}")
    doc2 = json.loads(text)
    return doc2, call(loader, doc2, what="from_json")


def json_compound_ids(doc, out=None):
    """ids emitted on JSON nodes that are compounds"""
    if out is None:
        out = []
    if isinstance(doc, dict):
        is_compound = any(k in doc for k in ("propositions", "proposition", "condition", "consequence"))
        if is_compound and "id" in doc:
            out.append(doc["id"])
        for k in ("propositions",):
            for c in doc.get(k, []) or []:
                json_compound_ids(c, out)
        for k in ("proposition", "condition", "consequence"):
            if k in doc:
                json_compound_ids(doc[k], out)
    return out


def compare_meaning(case, m, m2, lv):
    n = 0
    vals = set()
    for env in common.assignments(case, lv):
        n += 1
        a = oracle.obj_value(m, env)
        b = oracle.obj_value(m2, env)
        vals.add(a)
        if a != b:
            raise Violation(f"reloaded model evaluates to {b}, original to {a}, on {env}")
        if n <= 3:
            got = oracle.bounds_tuple(call(m2.evaluate, dict(env), what="reloaded.evaluate"))
            if got != (a, a):
                raise Violation(f"reloaded.evaluate()={got}, original value {a}, on {env}")
    return n, vals


def check_model(case, ev):
    import puan.logic.plog as pg
    spec = case["model"]
    m = common.build_valid(case, ev)
    if m is None:
        return
    lv = oracle.leaves(m)
    comps = oracle.compounds(m)
    if any(i in lv for i in comps):
        ev.count("discarded_by_reference_atom")
        return
    doc, m2 = roundtrip(m, pg.from_json)
    lv2 = oracle.leaves(m2) if not oracle.is_leaf(m2) else {m2.id: oracle.bounds_tuple(m2.bounds)}
    if lv2 != lv:
        raise Violation(f"reloaded model has leaves {lv2}, original {lv}")
    n, vals = compare_meaning(case, m, m2, lv)
    ev.count("assignments", n)
    explicit = {x.id for x in comps.values() if not x.generated_id}
    ids2 = {x.id for x in oracle.walk(m2)}
    missing = explicit - ids2
    if missing:
        raise Violation(f"explicit ids {sorted(missing)} of the original do not occur in the reloaded model")
    generated = {x.id for x in oracle.walk(m) if not oracle.is_leaf(x) and x.generated_id}
    emitted = set(json_compound_ids(doc))
    bad = emitted & (generated - explicit)
    if bad:
        raise Violation(f"JSON emits an 'id' for sub-propositions with generated ids: {sorted(bad)}")
    nodes = oracle.spec_nodes(spec)
    odd_sign = any(n_["k"] == "AtLeast" and n_.get("s") is not None and n_["s"] != (1 if n_["v"] > 0 else -1) for n_ in nodes)
    neg_deep = oracle.spec_depth(spec) >= 2 and any(n_["k"] in ("Not", "Imply", "XNor") for n_ in nodes)
    cl = common.model_classes(spec, m)
    cl += ["kind:" + k for k in sorted({n_["k"] for n_ in nodes} - {"leaf", "ref"})]
    if odd_sign:
        cl.append("explicit_non_default_sign")
    if explicit:
        cl.append("has_explicit_ids")
    ev.case(case, neg_deep or odd_sign, cl)


def cfg_snapshot(c):
    """defaults, default prios and polyhedron of a configurator (caches cleared first)"""
    import numpy as np
    build.clear_caches()
    defaults = {}
    for x in oracle.walk(c):
        if getattr(x, "default", None):
            defaults[x.id] = sorted((d.id, oracle.bounds_tuple(d.bounds)) for d in (x.default or []))
    dp = {k: int(v) for k, v in call(lambda: c.default_prios, what="default_prios").items()}
    p = call(lambda: c.ge_polyhedron, what="ge_polyhedron")
    poly = {
        "matrix": sorted(np.asarray(p).tolist()),      # a system of inequalities: the order of the rows carries no meaning
        "columns": [(v.id, oracle.bounds_tuple(v.bounds)) for v in p.variables],
        "dpv": [int(x) for x in np.asarray(p.default_prio_vector).tolist()],
    }
    build.clear_caches()
    return defaults, dp, poly


def _canonical(c, defaults, dp, poly):
    import hashlib
    names = {}

    def name(x):
        if oracle.is_leaf(x) or not x.generated_id:
            return str(x.id)
        if x.id not in names:
            sig = (int(x.sign), int(x.value), tuple(sorted(name(ch) for ch in x.propositions)))
            names[x.id] = "~G" + hashlib.sha1(repr(sig).encode()).hexdigest()[:16]
        return names[x.id]
    for x in oracle.walk(c):
        name(x)
    rn = lambda i: names.get(i, str(i))
    cols = [(rn(i), b) for i, b in poly["columns"]]
    order = [0] + sorted(range(1, len(cols)), key=lambda j: (cols[j][0], j))
    poly2 = {"matrix": sorted([row[j] for j in order] for row in poly["matrix"]),
             "columns": [cols[j] for j in order],
             "dpv": [poly["dpv"][j - 1] for j in order[1:]] if len(poly["dpv"]) == len(cols) - 1 else poly["dpv"]}
    return (sorted((rn(k), v) for k, v in defaults.items()), sorted((rn(k), v) for k, v in dp.items()), poly2)


def check_cfg(case, ev):
    import puan.modules.configurator as cc
    spec = case["model"]
    c = common.build_valid(case, ev)
    if c is None:
        return
    lv = oracle.leaves(c)
    comps = oracle.compounds(c)
    if any(i in lv for i in comps):
        ev.count("discarded_by_reference_atom")
        return
    if common.ambiguous_prio(c):
        ev.count("skipped_ambiguous_prio_sharing")
        return
    d1, dp1, poly1 = cfg_snapshot(c)
    doc, c2 = roundtrip(c, cc.StingyConfigurator.from_json)
    if type(c2).__name__ != "StingyConfigurator":
        raise Violation(f"from_json returned a {type(c2).__name__}")
    if c2.id != c.id and not c.generated_id:
        raise Violation(f"configurator id {c.id!r} became {c2.id!r}")
    lv2 = oracle.leaves(c2)
    if lv2 != lv:
        raise Violation(f"reloaded configurator has leaves {lv2}, original {lv}")
    case2 = {"model": spec, "points": None}
    n, vals = compare_meaning(case2, c, c2, lv)
    d2, dp2, poly2 = cfg_snapshot(c2)
    gen1 = {x.id for x in oracle.walk(c) if not oracle.is_leaf(x) and x.generated_id}
    gen2 = {x.id for x in oracle.walk(c2) if not oracle.is_leaf(x) and x.generated_id}
    if gen1 != gen2:
        # Generated ids are not part of the statement (a node whose sign was given explicitly - every negated node - hashes
        # to another id than the same node read back with its derived sign, see DESIGN section 9): both sides are compared
        # with generated ids replaced by a name derived from the node's definition, columns and rows in canonical order.
        ev.count("compared_modulo_generated_ids")
        d1, dp1, poly1 = _canonical(c, d1, dp1, poly1)
        d2, dp2, poly2 = _canonical(c2, d2, dp2, poly2)
    if d1 != d2:
        raise Violation(f"defaults differ after the round trip: {d1} vs {d2}")
    if dp1 != dp2:
        dp1, dp2 = dict(dp1), dict(dp2)
        diff = {k: (dp1.get(k), dp2.get(k)) for k in set(dp1) | set(dp2) if dp1.get(k) != dp2.get(k)}
        raise Violation(f"default_prios differ after the round trip: {diff}")
    if poly1 != poly2:
        what = [k for k in poly1 if poly1[k] != poly2[k]]
        raise Violation(f"polyhedron differs after the round trip in {what}: {poly1} vs {poly2}")
    explicit = {x.id for x in comps.values() if not x.generated_id}
    missing = explicit - {x.id for x in oracle.walk(c2)}
    if missing:
        raise Violation(f"explicit ids {sorted(missing)} of the original do not occur in the reloaded configurator")
    generated = {x.id for x in oracle.walk(c) if not oracle.is_leaf(x) and x.generated_id}
    bad = set(json_compound_ids(doc)) & (generated - explicit)
    if bad:
        raise Violation(f"JSON emits an 'id' for sub-propositions with generated ids: {sorted(bad)}")
    nodes = oracle.spec_nodes(spec)
    deep_default = any(n_.get("default") for r in spec["c"] for n_ in oracle.spec_nodes(r)[1:] if n_["k"] in ("cAny", "cXor"))
    cl = ["kind:" + k for k in sorted({n_["k"] for n_ in nodes} - {"leaf", "ref"})]
    if any(v == -2 for v in dict(dp1).values()):
        cl.append("has_non_default_branch")
    if deep_default:
        cl.append("default_below_top_level")
    if any(n_.get("default") and n_["default"][0] not in [c_["id"] for c_ in n_["c"] if c_["k"] == "leaf"] for n_ in nodes if n_["k"] in ("cAny", "cXor")):
        cl.append("default_not_among_children")
    ev.case(case, deep_default or any(v == -2 for v in dict(dp1).values()), cl)


@st.composite
def model_strat(draw, tier, profile):
    return draw(common.model_case(guard=600 if tier == "quick" else 3000, n_points=(12, 24), depth=3 if tier == "quick" else 4,
                                  profile=profile))


def shapes(slice_i, n):
    for spec in S.small_shapes(slice_i, n):
        yield {"model": spec, "points": None}


def mixed(slice_i, n):
    from vf import strategies as S_
    for spec in S_.mixed_shapes(slice_i, n):
        yield {"model": spec, "points": None}


def empty(slice_i, n):
    """groups without sub-propositions, alone and inside every connective"""
    from vf import strategies as S_
    for spec in S_.empty_shapes(slice_i, n):
        yield {"model": spec, "points": None}

def parts(tier):
    return [Part("cfg_shapes", enumerate_cases=(lambda t: ({"model": s_} for s_ in S.cfg_small_shapes())), check=check_cfg, time_quick=150.0), Part("scale", strategy=lambda t: __import__("vf.strategies", fromlist=["x"]).scale_case(), check=check_model, quick=(1, 40), thorough=(2, 600)), Part("shared_depths", enumerate_cases=(lambda t: ({"model": s_, "points": None} for s_ in __import__("vf.strategies", fromlist=["x"]).shared_depth_shapes())), check=check_model, time_quick=120.0), Part("empty0", enumerate_cases=(lambda t: empty(0, 1)), check=check_model, time_quick=120.0), Part("class_twins", strategy=lambda t: S.class_twin_spec().map(lambda s_: {"model": s_, "points": None}), check=check_model, quick=(1, 300), thorough=(2, 3000))] + [Part("mixed%d" % i, enumerate_cases=(lambda t, i=i: mixed(i, 8)), check=check_model, time_quick=150.0) for i in range(8)] + [Part("shapes%d" % i, enumerate_cases=(lambda t, i=i: shapes(i, 4)), check=check_model, time_quick=120.0) for i in range(4)] + [
        Part("models", strategy=lambda t: model_strat(t, "small"), check=check_model, quick=(5, 350), thorough=(10, 2500), fuzz=(2, 20000)),
        Part("models_large", strategy=lambda t: model_strat(t, "large"), check=check_model, quick=(1, 300), thorough=(2, 2000)),
        Part("models_huge", strategy=lambda t: model_strat(t, "huge"), check=check_model, quick=(1, 200), thorough=(2, 2000)),
        Part("configurators", strategy=lambda t: S.configurator_spec().map(lambda s: {"model": s}), check=check_cfg,
             quick=(2, 350), thorough=(4, 2000)),
    ]
