"""C18 - Extending a configurator equals building it with the extra rule."""
from hypothesis import strategies as st

from vf import build, oracle, snapshot, solvers, strategies as S
from vf.core import Part, Violation, call
from vf.props import common

PROPERTY = "C18"
RULE = ("Hypothesis generates a StingyConfigurator spec (explicit or generated configurator id) and a sequence of 1-4 rules to "
        "add (plain, defaulted Any/Xor, implication rules, bare items; ids explicit, generated, and sometimes clashing with a "
        "top-level rule/item of the configurator). After every add(): the result must equal StingyConfigurator(*old_rules, "
        "new_rule, id=old.id) built fresh from the spec (deep structural snapshot, default_prios, ge_polyhedron with all "
        "caches cleared between the sides, optimum of select() with an exact brute-force solver under drawn priorities); "
        "result.id == original.id; the original's snapshot and polyhedron are unchanged; a rule whose id names an existing "
        "top-level rule/item must raise and leave everything unchanged. Sequences: c.add(r1).add(r2)... is compared with the "
        "direct construction with all rules. Non-trivial = >=2 successful additions with >=1 defaulted rule among the added; "
        "distinct = SHA-1 of the canonical case JSON.")
ASSUMPTIONS = ["a clash is an added rule whose id equals the id of one of the configurator's top-level propositions"]


@st.composite
def case_strategy(draw, tier):
    base = draw(S.configurator_spec(max_items=6, max_rules=3))
    extra = draw(S.configurator_spec(max_items=6, max_rules=4, explicit_p=50))
    adds = []
    # top-level children that are not plain boolean rules: an integer item, a rule whose own variable is pre-fixed
    r = draw(st.integers(0, 3))
    if r == 0:
        base["c"].append({"k": "leaf", "id": "n", "b": list(draw(st.sampled_from([(0, 3), (-1, 2), (1, 4)])))})
    # (a rule with a pre-fixed variable is not generated: the polyhedron of pre-fixed models is outside C01's domain)
    top_ids = [r_.get("id") for r_ in base["c"] if r_.get("id")]
    for j, r in enumerate(extra["c"][:4]):
        r = dict(r)
        if r.get("id") is not None and r["k"] != "leaf":
            r["id"] = "X%d" % j
            rename(r, "X%d_" % j)
        if top_ids and draw(st.integers(0, 4)) == 0 and r["k"] != "leaf":
            r["id"] = draw(st.sampled_from(top_ids[-2:] + top_ids))       # clash on purpose (biased to the special children)
        adds.append(r)
    if draw(st.integers(0, 3)) == 0:
        adds.insert(draw(st.integers(0, len(adds))), {"k": "reuse", "i": draw(st.integers(0, 9))})
    if draw(st.integers(0, 3)) == 0:
        # a BUNDLE: an unnamed (or named) conjunction / disjunction whose members are all rules themselves; a member may
        # even carry the id of an existing top-level rule - only the bundle's own id matters for the refusal
        L_ = lambda i: {"k": "leaf", "id": i, "b": [0, 1]}
        m1 = {"k": "Imply", "id": "q_needs_x", "c": [L_("a"), L_("b")]}
        m2 = {"k": "AtMost", "v": 1, "id": draw(st.sampled_from(["not_both", "not_both"] + top_ids[:1])), "c": [L_("c"), L_("a")]}
        bundle = {"k": draw(st.sampled_from(["All", "All", "Any"])), "id": draw(st.sampled_from([None, None, "bundle"])), "c": [m1, m2] + ([L_("d")] if draw(st.integers(0, 3)) == 0 else [])}
        adds.insert(draw(st.integers(0, len(adds))), bundle)
    prios = [list(kv) for kv in sorted(draw(st.dictionaries(st.sampled_from(["a", "b", "c", "d", "e", "f"]),
                                                            st.sampled_from([1, 2, -1]), max_size=3)).items())]
    return {"model": base, "adds": adds, "prios": prios}


@st.composite
def scale_case(draw, tier):
    """a configurator with MORE THAN 100 top-level children (items + option groups + rules) that is extended by a requirement
    rule, a group of free items and - refused - a rule that takes the id of an existing group"""
    base = draw(S.big_configurator_spec(min_top=draw(st.sampled_from([99, 100, 101, 102, 130]))))
    L = lambda i: {"k": "leaf", "id": i, "b": [0, 1]}
    adds = [{"k": "Imply", "id": "NEW1", "c": [L("g000_a"), {"k": "All", "id": "NEW1all", "c": [L("g001_b"), L("it000") if any(c.get("id") == "it000" for c in base["c"]) else L("g002_a")]}]},
            {"k": "Any", "id": "G001", "c": [L("g000_a"), L("g000_b")]},       # clash with an existing group
            {"k": "cXor", "id": "NEW2", "c": [L("n_x"), L("n_y"), L("n_z")], "default": ["n_y"]}]
    adds = list(draw(st.permutations(adds)))
    return {"model": base, "adds": adds, "prios": [["g000_b", 2]]}


def rename(node, prefix):
    for c in node.get("c", []):
        if c["k"] not in ("leaf", "ref"):
            if c.get("id") is not None:
                c["id"] = prefix + c["id"]
            rename(c, prefix)


def _spec_of(spec, node_id):
    """the spec of the (first) compound with this explicit id inside a configurator spec"""
    for n in oracle.spec_nodes(spec):
        if n.get("id") == node_id and n["k"] not in ("leaf", "ref", "Stingy"):
            return n
    return None


def cfg_view(c, prios):
    import numpy as np
    build.clear_caches()
    v = {"snap": snapshot.prop(c), "dp": {k: int(x) for k, x in c.default_prios.items()}}
    p = c.ge_polyhedron
    v["poly"] = snapshot.array(p)
    ncols = np.asarray(p).shape[1] - 1
    if ncols <= 14:
        log = []
        res = list(c.select(dict(prios), solver=solvers.exact(log, 20000)))
        v["optimum"] = [[sorted((str(k), int(x)) for k, x in conf.items()), None if ov is None else int(ov)] for conf, ov, sc in res]
    build.clear_caches()
    return v


def check(case, ev):
    import puan.modules.configurator as cc
    spec = case["model"]
    c = common.build_valid(case, ev)
    if c is None:
        return
    if common.ambiguous_prio(c):
        ev.count("skipped_ambiguous_prio_sharing")
        return
    prios = [tuple(kv) for kv in case["prios"]]
    orig_view = call(cfg_view, c, prios, what="querying the original configurator")
    cur = c
    cur_spec = {"k": "Stingy", "id": spec.get("id"), "c": list(spec["c"])}
    n_ok = 0
    n_clash = 0
    defaulted_added = False
    for r in case["adds"]:
        if r.get("k") == "reuse":
            # the added rule is the very OBJECT that already sits nested inside one of the configurator's rules (a package
            # required by an implication is now also made mandatory) - found by its id, which must not be a top-level id
            nested = [x for x in oracle.walk(cur) if not oracle.is_leaf(x) and x is not cur and not x.generated_id
                      and x.id not in [t.id for t in cur.propositions]]
            if not nested:
                continue
            rule = sorted(nested, key=lambda x: x.id)[r["i"] % len(nested)]
            r = _spec_of(cur_spec, rule.id)
            if r is None:
                continue
        else:
            rule = build.node(r, [])
        if isinstance(rule, str):
            import puan
            rule = puan.variable(rule)
        top = [x.id for x in cur.propositions]
        before = call(cfg_view, cur, prios, what="querying the configurator before add()")
        if rule.id in top:
            n_clash += 1
            try:
                cur.add(rule)
            except Exception:
                after = call(cfg_view, cur, prios, what="querying the configurator after a refused add()")
                if after != before:
                    raise Violation(f"a refused add() changed the configurator: {_diff(before, after)}")
                continue
            raise Violation(f"add() accepted a rule whose id {rule.id!r} already names a top-level proposition {top}")
        new = call(cur.add, rule, what="add()")
        if type(new).__name__ != "StingyConfigurator":
            raise Violation(f"add() returned a {type(new).__name__}")
        if new.id != cur.id:
            raise Violation(f"add() changed the configurator id from {cur.id!r} to {new.id!r}")
        after = call(cfg_view, cur, prios, what="querying the configurator after add()")
        if after != before:
            raise Violation(f"add() changed the configurator it was called on: {_diff(before, after)}")
        # direct construction, fresh objects from the specs
        cur_spec = {"k": "Stingy", "id": cur_spec["id"], "c": cur_spec["c"] + [r]}
        direct_rules = [build.node(x, []) for x in cur_spec["c"]]
        direct = cc.StingyConfigurator(*direct_rules, id=c.id)
        if call(direct.errors, what="errors()") or common.ambiguous_prio(direct):
            ev.count("extended_model_invalid_or_ambiguous")
            break
        dv = call(cfg_view, direct, prios, what="querying the directly constructed configurator")
        nv = call(cfg_view, new, prios, what="querying the configurator returned by add()")
        if dv != nv:
            raise Violation(f"add() result differs from direct construction with the extra rule: {_diff(dv, nv)}")
        cur = new
        n_ok += 1
        if any(n.get("default") for n in oracle.spec_nodes(r) if n["k"] in ("cAny", "cXor")):
            defaulted_added = True
    final = call(cfg_view, c, prios, what="querying the original configurator")
    if final != orig_view:
        raise Violation(f"the original configurator changed during the additions: {_diff(orig_view, final)}")
    cl = ["additions:%d" % n_ok, "clashes:%d" % n_clash, "explicit_cfg_id" if spec.get("id") else "generated_cfg_id"]
    if defaulted_added:
        cl.append("defaulted_rule_added")
    ev.case(case, n_ok >= 2 and defaulted_added, cl)


def _diff(a, b, path=""):
    from vf.props.c17 import _diff as d
    return d(a, b, path)


def parts(tier):
    return [Part("scale", strategy=lambda t: scale_case(t), check=check, quick=(1, 10), thorough=(2, 120)), Part("add", strategy=lambda t: case_strategy(t), check=check, quick=(8, 120), thorough=(16, 800))]
