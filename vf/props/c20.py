"""C20 - Id/position bridges are faithful.

Code under test (puan/ndarray/__init__.py): ``variable_ndarray.construct``, ``variable_indices`` /
``boolean_variable_indices`` / ``integer_variable_indices``, ``integer_ndarray.from_list``,
``boolean_ndarray.from_list`` / ``to_list``, ``ge_polyhedron.A`` / ``b`` / ``to_linalg`` (+ alias
``puan.ndarray.to_linalg``).

All oracles are position-by-position bookkeeping over the JSON case in plain Python.
Ids in a case are JSON values: str, int or list (a list stands for a tuple id and is converted before use).
"""
import json
import math

from hypothesis import strategies as st

from vf.core import Part, Violation, call

PROPERTY = "C20"
RULE = ("Id pool incl. LOOK-ALIKE ids (one letter precomposed / combining / compatibility form, surrounding blanks, tab, case, full-width); linalg matrices incl. entries at 32767/32768/-32769/4*10^4/2^31/2^40. Also: variable_indices with the documented plain strings 'bool'/'int'; tuple ids for integer_ndarray.from_list; A of a rank-3 stack of systems. Hypothesis draws duplicate-free variable lists (1-7 variables) whose ids are strings (incl. '', blanks, "
        "digits-only and unicode), ints and tuples of ints/strings, with bounds (0,1) for about half of them and "
        "arbitrary lo<=hi (|.|<=10^4, incl. constants and (1,1)) otherwise. construct: a value dictionary over a "
        "random subset of the known ids plus unknown ids (fresh ids, string/int twins of known ids, column positions), "
        "dtype in int/int32/int64/float/float32, default None or a callable (const, upper, span, -lower), called on a "
        "variable_ndarray, on a ge_polyhedron (support variable first) and on polyhedron.A; the boolean/integer "
        "index sets are checked on the same object. from_list: non-empty duplicate-free lists (1-D and nested) of "
        "context ids (strings/ints) in random order mixed with unknown ids, integer and boolean variant. to_list: 0/1 "
        "arrays (1-D and 2-D) over a variable list. linalg: polyhedra 1-4 rows x 1-6 A-columns with explicit variables "
        "(support variable first) and explicit index, A/b/to_linalg (method and module alias). Non-trivial: construct "
        "= >=1 unknown id AND >=1 non-boolean variable AND >=1 defaulted position; from_list = >=1 unknown id AND >=1 "
        "listed AND >=1 unlisted context id AND list order differs from context order; to_list = >=1 one AND >=1 "
        "zero AND >=1 non-boolean variable; linalg = >=2 rows, >=2 A-columns, >=1 non-boolean variable; distinct = "
        "SHA-1 of the canonical case JSON.")
ASSUMPTIONS = [
    "empty lists (and empty sub-lists) are outside from_list's checked domain: the pinned test-suite requires "
    "from_list([], context) == [] rather than an all-zero vector",
    "from_list inputs are duplicate-free (with duplicates 'the 1-based position' is ambiguous) and use string/int "
    "ids only: boolean_ndarray.from_list treats a leading tuple as a nested list and the docstrings type ids as str",
    "bool and float ids are left out (True == 1 and 1.0 == 1 would be duplicates of int ids)",
    "construct results are compared by value (NaN by isnan), by shape (n,) and by numpy dtype == requested dtype",
    "variables are compared positionally by id (value and Python type) and bounds tuple",
    "nothing is asserted about b's variables (b is a plain vector) or about result classes",
]

DTYPES = ["int", "int32", "int64", "float", "float32", "int16", "int8", "uint8", "uint16", "uint32", "uint64"]
STR_IDS = ["", "a", "b", "c", "x", "y", "å", "€uro", "名", "a b", " ", "0", "1", "2", "-1", "A", "a1", "Ω",
           # LOOK-ALIKE ids - different strings, hence different ids: the same letter precomposed / with a combining mark /
           # as a compatibility sign (they share one unicode normal form), and ids that differ in surrounding blanks or case
           "\u00c5", "A\u030a", "\u212b", "\u00e9", "e\u0301", "\u2126", "a ", " a", "a\t", "B", "\uff41"]


def _mods():
    import numpy as np
    import puan
    import puan.ndarray as pnd
    return puan, pnd, np


def _id(j):
    """JSON id -> python id (list -> tuple)"""
    return tuple(_id(x) for x in j) if isinstance(j, list) else j


def _same_id(a, b):
    return type(a) is type(b) and a == b


def _key(j):
    return json.dumps(j, sort_keys=True)


def _dtype(np, name):
    return {"int": int, "int32": np.int32, "int64": np.int64, "float": float, "float32": np.float32, "int16": np.int16, "int8": np.int8,
            "uint8": np.uint8, "uint16": np.uint16, "uint32": np.uint32, "uint64": np.uint64}[name]


def _default_fn(spec):
    k = spec["kind"]
    if k == "const":
        v = spec["v"]
        return (lambda var: v), (lambda lo, hi: v)
    if k == "upper":
        return (lambda var: var.bounds.upper), (lambda lo, hi: hi)
    if k == "span":
        return (lambda var: var.bounds.upper - var.bounds.lower), (lambda lo, hi: hi - lo)
    return (lambda var: -var.bounds.lower), (lambda lo, hi: -lo)


def _variables(puan, vars_):
    return [puan.variable(_id(v[0]), (v[1], v[2])) for v in vars_]


def _check_vars(got, exp, what, case):
    """got: iterable of puan.variable; exp: [[id, lo, hi], ...]"""
    got = list(got)
    if len(got) != len(exp):
        raise Violation(f"{what}: {len(got)} variables, expected {len(exp)}; case {case}")
    for j, (g, e) in enumerate(zip(got, exp)):
        gid = getattr(g, "id", g)
        if not _same_id(gid, _id(e[0])):
            raise Violation(f"{what}: position {j} holds id {gid!r}, expected {_id(e[0])!r}; case {case}")
        gb = getattr(g, "bounds", None)
        if gb is not None and len(e) == 3:
            t = (int(gb.lower), int(gb.upper))
            if t != (e[1], e[2]):
                raise Violation(f"{what}: variable {gid!r} at position {j} has bounds {t}, expected {(e[1], e[2])}; "
                                f"case {case}")


# ----------------------------------------------------------------------------------------------
# construct + index sets
# ----------------------------------------------------------------------------------------------

def check_construct(case, ev):
    puan, pnd, np = _mods()
    host = case["host"]
    vars_ = case["vars"]
    rows = case.get("rows", 1)
    if host == "vnd":
        cols = vars_
        obj = call(pnd.variable_ndarray, [[0] * len(cols)] * rows, variables=_variables(puan, cols),
                   what="variable_ndarray construction")
    else:
        full = [[0, 1, 1]] + vars_  # support variable: id 0, bounds (1,1)
        P = call(pnd.ge_polyhedron, [[0] * len(full)] * rows,
                 variables=[puan.variable.support_vector_variable()] + _variables(puan, vars_),
                 what="ge_polyhedron construction")
        if host == "poly":
            cols, obj = full, P
        else:
            cols, obj = vars_, call(lambda: P.A, what="ge_polyhedron.A")
    values = {}
    for k, v in case["vals"]:
        values[_id(k)] = v
    dname = case["dtype"]
    ofn = None
    kw = {}
    if case.get("default") is not None:
        kw["default_value"], ofn = _default_fn(case["default"])
    if dname in ("int16", "int8", "uint8", "uint16", "uint32", "uint64"):
        # narrow / unsigned integer types only when every value that must appear fits them
        info = np.iinfo(_dtype(np, dname))
        must = [values[_id(vid)] if _id(vid) in values else (ofn(lo, hi) if ofn is not None else lo) for vid, lo, hi in cols]
        if not all(isinstance(x, int) and info.min <= x <= info.max for x in must):
            dname = "int64"
    dt = _dtype(np, dname)
    is_int = dname.startswith(("int", "uint"))
    kw["dtype"] = dt
    res = call(obj.construct, dict(values), what="construct", **kw)
    arr = np.asarray(res)
    if tuple(arr.shape) != (len(cols),):
        raise Violation(f"construct: result shape {tuple(arr.shape)}, expected {(len(cols),)}; case {case}")
    if arr.dtype != np.dtype(dt):
        raise Violation(f"construct: result dtype {arr.dtype}, requested {np.dtype(dt)}; case {case}")
    got = arr.tolist()
    n_default = 0
    for j, (vid, lo, hi) in enumerate(cols):
        pid = _id(vid)
        if pid in values:
            exp, why = values[pid], "the value given for its id"
        else:
            n_default += 1
            if ofn is not None:
                exp, why = ofn(lo, hi), "the result of the default callable"
            elif is_int:
                exp, why = lo, "the variable's lower bound (integer dtype)"
            else:
                exp, why = None, "NaN (float dtype)"
        g = got[j]
        if exp is None:
            ok = isinstance(g, float) and math.isnan(g)
        else:
            ok = (not (isinstance(g, float) and math.isnan(g))) and g == exp
        if not ok:
            raise Violation(f"construct: position {j} (id {pid!r}, bounds {(lo, hi)}) is {g!r}, expected {why} = "
                            f"{'nan' if exp is None else exp}; values {case['vals']}; dtype {case['dtype']}; default "
                            f"{case.get('default')}; variables {cols}; result {got}")
    # --- boolean / integer index sets on the same object
    exp_b = [j for j, c in enumerate(cols) if (c[1], c[2]) == (0, 1)]
    exp_i = [j for j, c in enumerate(cols) if (c[1], c[2]) != (0, 1)]
    for name, getter, exp in (
            ("boolean_variable_indices", lambda: obj.boolean_variable_indices, exp_b),
            ("integer_variable_indices", lambda: obj.integer_variable_indices, exp_i),
            ("variable_indices(Dtype.BOOL)", lambda: obj.variable_indices(puan.Dtype.BOOL), exp_b),
            ("variable_indices(Dtype.INT)", lambda: obj.variable_indices(puan.Dtype.INT), exp_i),
            # the documented plain-string forms ('"bool" gives puan.Dtype.BOOL'; Dtype is a str enumeration)
            ("variable_indices('bool')", lambda: obj.variable_indices("bool"), exp_b),
            ("variable_indices('int')", lambda: obj.variable_indices("int"), exp_i)):
        r = call(getter, what=name)
        r = [int(x) for x in np.asarray(r).reshape(-1).tolist()]
        if r != exp:
            raise Violation(f"{name}: got {r}, expected {exp} (columns whose bounds are{'' if 'BOOL' in name or 'bool' in name else ' not'} "
                            f"(0,1)); variables {cols}")
    known = {_key(c[0]) for c in cols}
    n_unknown = sum(1 for k, _ in case["vals"] if _key(k) not in known)
    n_nonbool = len(exp_i) - (0 if host != "poly" else 1)
    cls = [f"host={host}", f"dtype={dname}",
           "default=" + (case["default"]["kind"] if case.get("default") else "none")]
    for kind, t in (("str", str), ("int", int), ("tuple", list)):
        if any(isinstance(c[0], t) for c in vars_):
            cls.append(f"ids:{kind}")
    if n_unknown:
        cls.append("unknown_id")
    if n_default:
        cls.append("defaulted_position")
    if n_default < len(cols):
        cls.append("given_position")
    if n_nonbool:
        cls.append("non_boolean_variable")
    if exp_b:
        cls.append("boolean_variable")
    if any(lo != hi for _, lo, hi in cols if (lo, hi) != (0, 1)):
        cls.append("lower!=upper_nonbool")
    ev.case(case, n_unknown >= 1 and n_nonbool >= 1 and n_default >= 1, cls)


# ----------------------------------------------------------------------------------------------
# from_list
# ----------------------------------------------------------------------------------------------

def check_from_list(case, ev):
    puan, pnd, np = _mods()
    ctx = case["context"]
    lst = case["lst"]
    nested = isinstance(lst[0], list)
    rows = lst if nested else [lst]
    exp_i = [[(row.index(c) + 1) if c in row else 0 for c in ctx] for row in rows]
    exp_b = [[1 if c in row else 0 for c in ctx] for row in rows]
    shape = (len(rows), len(ctx)) if nested else (len(ctx),)
    for name, cls_, exp in (("integer_ndarray.from_list", pnd.integer_ndarray, exp_i),
                            ("boolean_ndarray.from_list", pnd.boolean_ndarray, exp_b)):
        arg = [list(r) for r in lst] if nested else list(lst)
        ctx_arg = list(ctx)
        if case.get("ctx_forms"):
            def carrier(i, f, salt):
                if f == 0 or isinstance(i, list):
                    return i
                return puan.variable(i, (0, 1)) if f == 1 else puan.variable(i, (-1 - salt % 3, 2 + salt % 5))
            ctx_arg = [carrier(i, f, j) for j, (i, f) in enumerate(zip(ctx, case["ctx_forms"]))]
            lf = case["lst_forms"]
            if nested:
                arg = [[carrier(i, lf[(j + k) % len(lf)], j + k + 1) for j, i in enumerate(r)] for k, r in enumerate(lst)]
            else:
                arg = [carrier(i, lf[j % len(lf)], j + 1) for j, i in enumerate(lst)]
            name = name + " (ids carried by puan.variable objects)"
        # boolean_ndarray.from_list also takes its rows as tuples (its code says so explicitly; itertools.combinations
        # and dict items produce such rows); a flat list may be handed over as a tuple as well when its first id is not one
        if cls_ is pnd.boolean_ndarray and (len(str(lst)) + len(ctx)) % 3 == 0:
            if nested:
                arg = [tuple(r) for r in lst]
                name = name + " (tuple rows)"
        if case.get("tuple_ids") and cls_ is pnd.integer_ndarray and not case.get("ctx_forms"):
            # ids that are tuples (any hashable is an id; for integer_ndarray.from_list only a LIST in first place means
            # "nested"): every id x becomes the pair (x, 1)
            tup = lambda x: (x, 1)
            arg = [[tup(x) for x in r_] for r_ in lst] if nested else [tup(x) for x in lst]
            ctx_arg = [tup(x) for x in ctx]
            name = name + " (tuple ids)"
        r = call(cls_.from_list, arg, ctx_arg, what=name)
        got_shape = tuple(int(x) for x in np.shape(r))
        got = np.asarray(r).tolist()
        if got_shape != shape:
            raise Violation(f"{name}: result shape {got_shape}, expected {shape}; lst {lst}; context {ctx}; result {got}")
        want = exp if nested else exp[0]
        if got != want:
            raise Violation(f"{name}: got {got}, expected {want} "
                            f"({'1-based position in lst' if cls_ is pnd.integer_ndarray else '1'} at listed context ids, "
                            f"0 elsewhere); lst {lst}; context {ctx}")
    unknown = any(x not in ctx for row in rows for x in row)
    listed = any(any(row) for row in exp_b)
    unlisted = any(not all(row) for row in exp_b)
    reordered = any([v for v in row if v] != sorted(v for v in row if v) for row in exp_i)
    cls = ["nested" if nested else "flat"] + (["ids_in_variable_objects"] if case.get("ctx_forms") else []) + \
        (["ids:tuple(integer_ndarray)"] if case.get("tuple_ids") and not case.get("ctx_forms") else [])
    if unknown:
        cls.append("unknown_id")
    if reordered:
        cls.append("list_order!=context_order")
    if any(isinstance(c, int) for c in ctx):
        cls.append("ids:int")
    if any(isinstance(c, str) for c in ctx):
        cls.append("ids:str")
    if any(not any(row) for row in exp_b):
        cls.append("row_without_known_id")
    ev.case(case, unknown and listed and unlisted and reordered, cls)


# ----------------------------------------------------------------------------------------------
# to_list
# ----------------------------------------------------------------------------------------------

def check_to_list(case, ev):
    puan, pnd, np = _mods()
    vars_ = case["vars"]
    bits = case["bits"]
    two_d = isinstance(bits[0], list)
    B = call(pnd.boolean_ndarray, bits, variables=_variables(puan, vars_), what="boolean_ndarray construction")
    r = call(B.to_list, what="to_list")
    rows = bits if two_d else [bits]
    got_rows = r if two_d else [r]
    if not isinstance(r, list) or len(got_rows) != len(rows) or (two_d and not all(isinstance(x, list) for x in r)):
        raise Violation(f"to_list: result {r!r} is not a {'list of lists with one entry per row' if two_d else 'list'}; "
                        f"bits {bits}; variables {vars_}")
    for i, (brow, grow) in enumerate(zip(rows, got_rows)):
        exp = [vars_[j] for j, x in enumerate(brow) if x == 1]
        _check_vars(grow, exp, f"to_list{f' row {i}' if two_d else ''} (bits {brow})", case)
    flat = [x for row in rows for x in row]
    nonbool = any((v[1], v[2]) != (0, 1) for v in vars_)
    cls = ["2d" if two_d else "1d"]
    for kind, t in (("str", str), ("int", int), ("tuple", list)):
        if any(isinstance(c[0], t) for c in vars_):
            cls.append(f"ids:{kind}")
    if nonbool:
        cls.append("non_boolean_variable")
    if any(not any(row) for row in rows):
        cls.append("empty_row")
    if any(all(row) for row in rows):
        cls.append("full_row")
    ev.case(case, (1 in flat) and (0 in flat) and nonbool, cls)


# ----------------------------------------------------------------------------------------------
# A / b / to_linalg
# ----------------------------------------------------------------------------------------------

def check_linalg(case, ev):
    puan, pnd, np = _mods()
    M = case["m"]
    vars_ = case["vars"]
    index = case["index"]
    n_rows, n = len(M), len(vars_)
    expA = [[int(x) for x in row[1:]] for row in M]
    expb = [int(row[0]) for row in M]

    def build():
        return call(pnd.ge_polyhedron, [list(r) for r in M],
                    variables=[puan.variable.support_vector_variable()] + _variables(puan, vars_),
                    index=[puan.variable(_id(i), (0, 1)) for i in index], what="ge_polyhedron construction")

    def check_A(A, what):
        if tuple(int(x) for x in np.shape(A)) != (n_rows, n):
            raise Violation(f"{what}: shape {tuple(np.shape(A))}, expected {(n_rows, n)}; matrix {M}")
        if np.asarray(A).tolist() != expA:
            raise Violation(f"{what}: {np.asarray(A).tolist()} is not the matrix without its first column {expA}; "
                            f"matrix {M}")
        _check_vars(getattr(A, "variables", []), vars_, f"{what}.variables (expected polyhedron.variables[1:])", case)
        _check_vars(getattr(A, "index", []), [[i] for i in index], f"{what}.index", case)

    def check_b(b, what):
        if tuple(int(x) for x in np.shape(b)) != (n_rows,):
            raise Violation(f"{what}: shape {tuple(np.shape(b))}, expected {(n_rows,)}; matrix {M}")
        if np.asarray(b).tolist() != expb:
            raise Violation(f"{what}: {np.asarray(b).tolist()} is not the first column {expb}; matrix {M}")

    P = build()
    check_A(call(lambda: P.A, what="A"), "A")
    P = build()
    check_b(call(lambda: P.b, what="b"), "b")
    P = build()
    if case.get("alias"):
        res = call(pnd.to_linalg, P, what="puan.ndarray.to_linalg")
    else:
        res = call(P.to_linalg, what="to_linalg")
    if not isinstance(res, tuple) or len(res) != 2:
        raise Violation(f"to_linalg: result {res!r} is not a pair (A, b); matrix {M}")
    check_A(res[0], "to_linalg()[0]")
    check_b(res[1], "to_linalg()[1]")
    if case.get("stack"):
        # a STACK of systems over the same variables (rank 3): A is every system without its first column, same variables
        # (b of a stack comes back with the axes swapped on the unchanged code - not judged, see DESIGN section 9)
        Ms = [[list(r) for r in M]] + [[[int(x) + d_ * (1 + (i_ + j_) % 3) for j_, x in enumerate(r)] for i_, r in enumerate(M)] for d_ in case["stack"]]
        P3 = call(pnd.ge_polyhedron, Ms, variables=[puan.variable.support_vector_variable()] + _variables(puan, vars_),
                  index=[puan.variable(_id(i), (0, 1)) for i in index], what="ge_polyhedron construction (stack)")
        A3 = call(lambda: P3.A, what="A of a stack of systems")
        if np.asarray(A3).tolist() != [[r[1:] for r in M_] for M_ in Ms]:
            raise Violation(f"A of a stack of systems: {np.asarray(A3).tolist()} is not every system without its first column; stack {Ms}")
        _check_vars(getattr(A3, "variables", []), vars_, "A.variables of a stack (expected polyhedron.variables[1:])", case)
    # the polyhedron itself is left untouched
    if np.asarray(P).tolist() != [[int(x) for x in r] for r in M]:
        raise Violation(f"to_linalg changed the polyhedron: {np.asarray(P).tolist()} != {M}")
    nonbool = any((v[1], v[2]) != (0, 1) for v in vars_)
    cls = [f"rows={min(n_rows, 3)}{'+' if n_rows >= 3 else ''}", "alias" if case.get("alias") else "method"] + (["stack_rank3"] if case.get("stack") else [])
    for kind, t in (("str", str), ("int", int), ("tuple", list)):
        if any(isinstance(c[0], t) for c in vars_):
            cls.append(f"ids:{kind}")
    if n_rows == n:
        cls.append("square_A")
    if nonbool:
        cls.append("non_boolean_variable")
    ev.case(case, n_rows >= 2 and n >= 2 and nonbool, cls)


# ----------------------------------------------------------------------------------------------
# generators
# ----------------------------------------------------------------------------------------------

def _id_strategy(tuples=True, zero=True):
    ints = st.integers(-3, 12) if zero else st.integers(-3, 12).filter(lambda x: x != 0)
    strs = st.one_of(st.sampled_from(STR_IDS), st.text(alphabet="abxyzåö€名 01-_", min_size=0, max_size=3))
    opts = [strs, strs, ints]
    if tuples:
        atom = st.one_of(st.integers(-2, 5), st.sampled_from(["a", "t", "", "å"]))
        opts.append(st.lists(atom, min_size=1, max_size=2))
    return st.one_of(*opts)


def _bounds():
    wide = st.integers(-10 ** 4, 10 ** 4)
    small = st.integers(-4, 4)

    def span(lo_s, w_s):
        return st.tuples(lo_s, w_s).map(lambda t: [t[0], t[0] + t[1]])
    nonbool = st.one_of(span(small, st.integers(0, 5)), span(wide, st.integers(0, 2000)),
                        st.sampled_from([[1, 1], [0, 0], [0, 2], [-1, 1], [-1, 0], [1, 2]]))
    return st.one_of(st.just([0, 1]), nonbool)


@st.composite
def _var_list(draw, min_size=1, max_size=7, tuples=True, zero=True):
    if max_size >= 7 and draw(st.integers(0, 19)) == 0:
        # MANY variables (a configurator's full item list): generated ids of two kinds, bounds from a short cycle
        n = draw(st.sampled_from([64, 65, 128, 129, 256, 257, 258, 300, 1000]))
        cyc = [(0, 1), (0, 1), (-5, 5), (3, 9), (0, 1), (1, 1), (-32768, 32767), (0, 1), (-2, -1)]
        off = draw(st.integers(0, len(cyc) - 1))
        return [[("v%04d" % j) if j % 3 else 10 + j, cyc[(j + off) % len(cyc)][0], cyc[(j + off) % len(cyc)][1]] for j in range(n)]
    ids = draw(st.lists(_id_strategy(tuples, zero), min_size=min_size, max_size=max_size, unique_by=_key))
    out = []
    for i in ids:
        b = draw(_bounds())
        out.append([i, b[0], b[1]])
    return out


def _int_twin(s):
    try:
        v = int(s)
    except ValueError:
        return None
    return v if str(v) == s else None


def _twins(ids):
    """unknown ids that look like known ones: str<->int twins and column positions"""
    out = []
    for j, i in enumerate(ids):
        if isinstance(i, int):
            out.append(str(i))
        elif isinstance(i, str) and _int_twin(i) is not None:
            out.append(_int_twin(i))
        elif isinstance(i, list):
            out.append(list(reversed(i)) if len(i) > 1 else i + [0])
        out.append(j)
        out.append(j + 1)
    return out


@st.composite
def construct_case(draw):
    host = draw(st.sampled_from(["vnd", "vnd", "poly", "A"]))
    vars_ = draw(_var_list(zero=(host == "vnd")))
    ids = [v[0] for v in vars_]
    known_keys = {_key(i) for i in ids} | ({_key(0)} if host == "poly" else set())
    val = st.one_of(st.integers(-9, 9), st.integers(-10 ** 6, 10 ** 6))
    pairs = []
    for i in ids:
        if draw(st.integers(0, 2)) == 0:
            pairs.append([i, draw(val)])
    if host == "poly" and draw(st.integers(0, 3)) == 0:
        pairs.append([0, draw(val)])
    cands = _twins(ids) + ["__unknown__", 99]
    n_unknown = draw(st.integers(0, 3))
    for _ in range(n_unknown):
        u = draw(st.one_of(st.sampled_from(cands), _id_strategy()))
        if _key(u) not in known_keys and all(_key(u) != _key(p[0]) for p in pairs):
            pairs.append([u, draw(val)])
    pairs = list(draw(st.permutations(pairs)))
    default = draw(st.sampled_from([None, None, None, "const", "upper", "span", "neglower"]))
    if default == "const":
        default = {"kind": "const", "v": draw(st.integers(-20, 20))}
    elif default is not None:
        default = {"kind": default}
    return {"host": host, "rows": draw(st.integers(1, 3)), "vars": vars_, "vals": pairs,
            "dtype": draw(st.sampled_from(DTYPES)), "default": default}


@st.composite
def from_list_case(draw):
    ctx = draw(st.lists(_id_strategy(tuples=False), min_size=1, max_size=7, unique_by=_key))
    ctx_keys = {_key(c) for c in ctx}
    unknown_pool = [u for u in _twins(ctx) + ["__unknown__", 99, "zz"] if _key(u) not in ctx_keys
                    and not isinstance(u, list)]

    def one():
        sub = [c for c in ctx if draw(st.integers(0, 2)) < 2]
        for _ in range(draw(st.integers(0, 2))):
            u = draw(st.sampled_from(unknown_pool))
            if all(_key(u) != _key(x) for x in sub):
                sub.append(u)
        if not sub:
            sub = [draw(st.sampled_from(ctx + unknown_pool))]
        return list(draw(st.permutations(sub)))
    if draw(st.booleans()):
        lst = [one() for _ in range(draw(st.integers(1, 4)))]
    else:
        lst = one()
    case = {"context": ctx, "lst": lst}
    if draw(st.integers(0, 4)) == 0:
        case["tuple_ids"] = True
    if draw(st.integers(0, 3)) == 0:
        # ids handed over inside puan.variable objects (polyhedron.variables as context, variables picked from another
        # array as list): 0 = the raw id, 1 = a boolean variable with that id, 2 = a variable with that id and other bounds
        case["ctx_forms"] = draw(st.lists(st.integers(0, 2), min_size=len(ctx), max_size=len(ctx)))
        case["lst_forms"] = draw(st.lists(st.integers(0, 2), min_size=8, max_size=8))
    return case


@st.composite
def to_list_case(draw):
    vars_ = draw(_var_list())
    n = len(vars_)
    # mostly 0/1; sometimes the array is a SUM of selections (entries 2) - to_list names the variables at the 1-entries only
    row = st.lists(st.integers(0, 1), min_size=n, max_size=n) if draw(st.integers(0, 5)) else st.lists(st.sampled_from([0, 1, 1, 2]), min_size=n, max_size=n)
    if draw(st.booleans()):
        bits = draw(st.lists(row, min_size=1, max_size=4))
    else:
        bits = draw(row)
    return {"vars": vars_, "bits": bits}


@st.composite
def linalg_case(draw):
    vars_ = draw(_var_list(max_size=6, zero=False))
    n = len(vars_)
    n_rows = draw(st.integers(1, 4))
    # incl. entries beyond the 16-bit "default integer range" of variable bounds and beyond 32 bits (big-M rows, capacities)
    cell = st.one_of(st.integers(-3, 3), st.integers(-10 ** 4, 10 ** 4), st.integers(-3, 3),
                     st.sampled_from([32767, 32768, -32768, -32769, 40000, -100000, 2 ** 31, -2 ** 31 - 1, 2 ** 40, -2 ** 45]))
    M = draw(st.lists(st.lists(cell, min_size=n + 1, max_size=n + 1), min_size=n_rows, max_size=n_rows))
    index = draw(st.lists(_id_strategy(), min_size=n_rows, max_size=n_rows, unique_by=_key))
    case = {"m": M, "vars": vars_, "index": index}
    if draw(st.integers(0, 2)) == 0:
        case["alias"] = True
    if draw(st.integers(0, 3)) == 0:
        case["stack"] = draw(st.lists(st.integers(-3, 3), min_size=1, max_size=3))
    return case


def parts(tier):
    return [
        Part("construct", strategy=lambda t: construct_case(), check=check_construct, quick=(8, 400),
             thorough=(16, 5000)),
        Part("from_list", strategy=lambda t: from_list_case(), check=check_from_list, quick=(4, 700),
             thorough=(4, 8000)),
        Part("to_list", strategy=lambda t: to_list_case(), check=check_to_list, quick=(4, 300), thorough=(6, 5000)),
        Part("linalg", strategy=lambda t: linalg_case(), check=check_linalg, quick=(4, 300), thorough=(6, 5000)),
    ]
