"""C01 - Logic-to-polyhedron encoding agrees with evaluation on every assignment."""
from vf import build, oracle
from vf.core import Part, Violation, call
from vf.props import common

PROPERTY = "C01"
RULE = ("Parts 'shapes*': EXHAUSTIVE enumeration of every single threshold node (all values/signs, 1-2 children from a boolean "
        "and an integer leaf with negative lower bound) alone and inside every connective. Other parts: Hypothesis generates validated model DAG specs (all connectives, nesting <=3/4, shared sub-propositions, "
        "boolean + integer leaves incl. negative and 16-bit ranges, no pre-fixed nodes); every in-bounds leaf "
        "assignment is enumerated when the leaf box is small, otherwise boundary/threshold-biased points are drawn. "
        "Oracle: own bottom-up arithmetic evaluator over the built object graph + own A.x>=b in Python ints, columns "
        "matched by id. Non-trivial = model has >=1 compound below the root AND both truth values of the root occur "
        "among the checked assignments; distinct = SHA-1 of the canonical case JSON.")
ASSUMPTIONS = ["puan_rspy 0.3.0 binary is part of the system under test",
               "large leaf boxes are sampled (boundary/threshold biased), not enumerated"]


def _twins(spec):
    import copy
    leaves = {}
    for n in oracle.spec_nodes(spec):
        if n["k"] == "leaf" and tuple(n["b"]) != (0, 1):
            leaves.setdefault(n["id"], tuple(n["b"]))
    out = []
    for lid, (lo, hi) in sorted(leaves.items())[:2]:
        cands = []
        if hi - lo >= 2:
            cands.append((lo + 1, hi - 1))
        if lo - 1 >= -32768 and hi + 1 <= 32767:
            cands.append((lo - 1, hi + 1))
        if lo == -1:
            cands.append((-2, hi))
        elif lo == -2:
            cands.append((-1, hi))
        for b in cands:
            tw = copy.deepcopy(spec)
            for n in oracle.spec_nodes(tw):
                if n["k"] == "leaf" and n["id"] == lid:
                    n["b"] = list(b)
            out.append(tw)
    return out[:3]


def _unfixed(spec):
    """the same spec without pre-fixed sub-propositions (outside C01 by the statement)"""
    import copy
    spec = copy.deepcopy(spec)
    for n in oracle.spec_nodes(spec):
        n.pop("fix", None)
    return spec


def _adversarial(tier):
    """models written to confuse validation (ids re-used across branches, look-alike definitions, coinciding generated ids):
    whatever of them PASSES validation is in the domain of C01"""
    from hypothesis import strategies as st
    c10 = __import__("vf.props.c10", fromlist=["x"])
    return st.one_of(c10.adversarial(tier), c10.coincidence(tier).map(lambda c_: {"model": c10._resolve(c_["model"])})) \
        .map(lambda c_: {"model": _unfixed(c_["model"]), "points": None})


def check_model(case, ev, max_eval=6):
    spec = case["model"]
    m = common.build_valid(case, ev)
    if m is None:
        return
    lv = oracle.leaves(m)
    comps = oracle.compounds(m)
    root_id = m.id
    if any(i in lv for i in comps):
        ev.count("discarded_by_reference_atom")
        return
    # Twins first: models with the same ids, shape, values and signs that differ only in one integer leaf's bounds
    # (narrower / wider with the same lower+upper, or lower bound -1 <-> -2) are converted BEFORE the model under test, so a
    # conversion that is remembered per "equal" proposition rather than per definition hands this model a twin's system.
    n_twins = 0
    for tw in _twins(spec):
        try:
            t_obj = build.model(tw)
            if not t_obj.errors():
                t_obj.to_ge_polyhedron(True)
                t_obj.to_ge_polyhedron(False)
                n_twins += 1
        except BaseException as e:  # noqa  (twins only warm up state; they are not judged here)
            if isinstance(e, (KeyboardInterrupt, SystemExit)):
                raise
    ev.count("twins_converted_first", n_twins)
    pa = call(m.to_ge_polyhedron, True, what="to_ge_polyhedron(active=True)")
    pi = call(m.to_ge_polyhedron, False, what="to_ge_polyhedron(active=False)")
    # "without asserting the top node" is what a call without arguments gives (documented default active=False)
    import numpy as _np
    pd_ = call(m.to_ge_polyhedron, what="to_ge_polyhedron()")
    if _np.asarray(pd_).tolist() != _np.asarray(pi).tolist() or [v.id for v in pd_.variables] != [v.id for v in pi.variables]:
        raise Violation("to_ge_polyhedron() without arguments is not the un-asserted system to_ge_polyhedron(active=False)")
    all_ids = set(lv) | set(comps)
    info = {}
    for name, poly, want in (("active", pa, all_ids - {root_id}), ("inactive", pi, all_ids)):
        cols, rws = oracle.rows(poly)
        ids = [c.id for c in cols]
        if len(ids) != len(set(ids)) or set(ids) != want:
            raise Violation(f"{name} polyhedron columns {sorted(map(str, ids))} != model ids {sorted(map(str, want))}")
        sv = poly.variables[0]
        if sv.id != 0 or tuple(sv.bounds.as_tuple()) != (1, 1):
            raise Violation(f"{name} polyhedron: first column is not the support variable: {sv}")
        for c in cols:
            b = (int(c.bounds.lower), int(c.bounds.upper))
            exp = lv[c.id] if c.id in lv else (0, 1)
            if b != exp:
                raise Violation(f"{name} polyhedron column {c.id!r} has bounds {b}, model says {exp}")
        info[name] = (ids, rws)
    seen_vals = set()
    n = 0
    for env in common.assignments(case, lv):
        n += 1
        memo = {}
        rv = oracle.obj_value(m, env, memo=memo)
        t = {cid: oracle.obj_value(node, env, memo=memo) for cid, node in comps.items()}
        full = dict(env)
        full.update(t)
        seen_vals.add(rv)
        ids, rws = info["active"]
        sat = oracle.all_rows_hold(rws, [full[i] for i in ids])
        if sat != (rv == 1):
            raise Violation(f"active polyhedron satisfied={sat} but model evaluates to {rv} on {env} (aux={t})")
        ids, rws = info["inactive"]
        if not oracle.all_rows_hold(rws, [full[i] for i in ids]):
            raise Violation(f"inactive polyhedron infeasible for evaluated extension of {env} (aux={t})")
        if n <= max_eval:
            # the assignment as Python ints, as narrow signed numpy scalars, as narrow (un)signed numpy scalars
            given = dict(env) if n % 3 == 1 else {k: common.narrow(v, unsigned_ok=(n % 3 == 0)) for k, v in env.items()}
            res = call(m.evaluate_propositions, given, what="evaluate_propositions")
            for k, v in full.items():
                if k not in res:
                    raise Violation(f"evaluate_propositions misses id {k!r} on {env}")
                got = oracle.bounds_tuple(res[k])
                if got != (v, v):
                    raise Violation(f"evaluate_propositions[{k!r}]={got} but arithmetic value is {v} on {env}")
    ev.count("assignments", n)
    ev.count("enumerated_models" if case.get("points") is None else "sampled_models")
    nontrivial = len(comps) >= 2 and seen_vals == {0, 1}
    ev.case(case, nontrivial, common.model_classes(spec, m) + (["both_truth_values"] if seen_vals == {0, 1} else []))


def shapes(slice_i, n):
    from vf import strategies as S
    for spec in S.small_shapes(slice_i, n):
        yield {"model": spec, "points": None}


def mixed(slice_i, n):
    from vf import strategies as S_
    for spec in S_.mixed_shapes(slice_i, n):
        yield {"model": spec, "points": None}


def empty(slice_i, n):
    """groups without sub-propositions, alone and inside every connective"""
    from vf import strategies as S_
    for spec in S_.empty_shapes(slice_i, n):
        yield {"model": spec, "points": None}

def parts(tier):
    q = tier == "quick"
    return [Part("bigm32", enumerate_cases=(lambda t: __import__("vf.strategies", fromlist=["x"]).bigm32_cases()), check=check_model, time_quick=100.0), Part("huge_rulebase", enumerate_cases=(lambda t: (__import__("vf.strategies", fromlist=["x"]).rulebase_case(r_, ("Any", "Any", "All"), (0, 1, 100, r_ // 2, r_ - 1)) for r_ in ((600,) if t == "quick" else (600, 1200)))), check=check_model, time_quick=200.0), Part("scale", strategy=lambda t: __import__("vf.strategies", fromlist=["x"]).scale_case(), check=check_model, quick=(2, 40), thorough=(4, 600)), Part("shared_depths", enumerate_cases=(lambda t: ({"model": s_, "points": None} for s_ in __import__("vf.strategies", fromlist=["x"]).shared_depth_shapes())), check=check_model, time_quick=120.0), Part("adversarial_valid", strategy=lambda t: _adversarial(t), check=check_model, quick=(2, 400), thorough=(4, 4000)), Part("empty0", enumerate_cases=(lambda t: empty(0, 1)), check=check_model, time_quick=120.0), Part("wide_nodes", strategy=lambda t: __import__("vf.strategies", fromlist=["x"]).wide_case(), check=check_model, quick=(2, 150), thorough=(4, 2000))] + [Part("class_twins", strategy=lambda t: __import__("vf.strategies", fromlist=["x"]).class_twin_spec().map(lambda s_: {"model": s_, "points": None}), check=check_model, quick=(1, 300), thorough=(2, 3000))] + [Part("bounding%d" % i, enumerate_cases=(lambda t, i=i: ({"model": s_, "points": None} for s_ in __import__("vf.strategies", fromlist=["x"]).bounding_shapes(i, 2))), check=check_model, time_quick=120.0) for i in range(2)] + [Part("mixed%d" % i, enumerate_cases=(lambda t, i=i: mixed(i, 8)), check=check_model, time_quick=150.0) for i in range(8)] + [Part("shapes%d" % i, enumerate_cases=(lambda t, i=i: shapes(i, 4)), check=check_model, time_quick=120.0) for i in range(4)] + [
        Part("small", strategy=lambda t: common.model_case(guard=1500 if t == "quick" else 6000, depth=3 if t == "quick" else 4,
                                                           profile="small"),
             check=check_model, quick=(6, 400), thorough=(12, 2500)),
        Part("large", strategy=lambda t: common.model_case(guard=1500 if t == "quick" else 6000, depth=3, profile="large",
                                                           max_bool=3, max_int=3),
             check=check_model, quick=(2, 300), thorough=(4, 2500)),
        Part("huge", strategy=lambda t: common.model_case(guard=1500, depth=2 if t == "quick" else 3, profile="huge",
                                                          max_bool=3, max_int=3),
             check=check_model, quick=(2, 200), thorough=(4, 2000)),
    ]
