"""C06 - Partial evaluation and tautology/contradiction flags are sound."""
import itertools

from hypothesis import strategies as st

from vf import build, oracle, strategies as S
from vf.core import Part, Violation, call
from vf.props import common

PROPERTY = "C06"
RULE = ("Parts 'flag_shapes*' / 'partial_shapes*': EXHAUSTIVE enumeration of every single threshold node (all values/signs, a boolean and "
        "an integer leaf with negative lower bound) alone and inside every connective, for the flags and under four partial "
        "interpretations of the integer leaf. Part 'partial': Hypothesis generates validated model DAG specs (pre-fixed nodes / constant leaves allowed) x partial "
        "interpretations (each leaf independently absent / int / sub-range as tuple / sub-range as Bounds) x ALL completions "
        "of the open leaves (enumerated up to 3000 points, else all corners of the open box + drawn points folded into it). "
        "Oracle: for every id reported by evaluate_propositions, lower <= reference arithmetic value <= upper for every "
        "completion; evaluate() equals the root entry. Part 'flags': for every compound node of the built model, "
        "is_tautology / is_contradiction / equation_bounds are compared with min/max of sign*sum(children)-value over the "
        "children's bound box (enumerated when <=4000 points, always at all corners in Python ints). Non-trivial = some "
        "compound gets a constant although >=1 leaf below it is open, or a tautology/contradiction flag is set; distinct = "
        "SHA-1 of the canonical case JSON.")
ASSUMPTIONS = ["nodes below a pre-fixed node are cut from the result; only reported ids are compared"]


@st.composite
def partial_case(draw, tier):
    spec = draw(S.model_spec(depth=3 if tier == "quick" else 4, allow_fix=True, allow_const_leaves=True,
                             profile=draw(st.sampled_from(["small", "small", "small", "large", "huge"]))))
    lv = oracle.spec_leaves(spec)
    ids = sorted(lv)
    pi = []
    for i in ids:
        lo, hi = lv[i]
        mode = draw(st.sampled_from([0, 0, 1, 1, 2, 3]))
        if mode == 0:
            pi.append([0, 0, 0])
        elif mode == 1:
            pi.append([1, draw(st.integers(lo, hi)), 0])
        else:
            l = draw(st.integers(lo, hi))
            u = draw(st.one_of(st.integers(l, hi), st.integers(l, min(hi, l + 3))))
            pi.append([mode, l, u])
    extra = draw(st.lists(st.lists(st.integers(0, 70000), min_size=len(ids), max_size=len(ids)), min_size=8, max_size=16))
    return {"model": spec, "pi": pi, "extra": extra}


@st.composite
def wide_partial_case(draw, tier):
    spec = draw(S.wide_spec(allow_const=True))
    lv = oracle.spec_leaves(spec)
    ids = sorted(lv)
    pi = []
    for i in ids:
        lo, hi = lv[i]
        mode = draw(st.sampled_from([1, 1, 1, 1, 1, 1, 0, 2, 3]))
        if mode == 0:
            pi.append([0, 0, 0])
        elif mode == 1:
            pi.append([1, draw(st.sampled_from([lo, hi, hi])) if draw(st.booleans()) else draw(st.integers(lo, hi)), 0])
        else:
            l = draw(st.integers(lo, hi))
            pi.append([mode, l, draw(st.integers(l, hi))])
    extra = draw(st.lists(st.lists(st.integers(0, 70000), min_size=len(ids), max_size=len(ids)), min_size=8, max_size=12))
    return {"model": spec, "pi": pi, "extra": extra}


@st.composite
def scale_partial_case(draw, tier):
    """LARGE models (hundreds of nodes / children / rules), all but a handful of leaves given as constants, 3-9 leaves left
    open or given as intervals"""
    spec = draw(S.scale_spec(allow_const=True))
    lv = oracle.spec_leaves(spec)
    ids = sorted(lv)
    open_at = set(draw(st.lists(st.integers(0, len(ids) - 1), min_size=min(3, len(ids)), max_size=min(9, len(ids)), unique=True)))
    bits = draw(st.integers(0, 2 ** 62))
    dens = draw(st.sampled_from([0, 1, 2, 3]))
    pi = []
    for j, i in enumerate(ids):
        lo, hi = lv[i]
        if j in open_at:
            pi.append([0, 0, 0] if (hi - lo <= 1 or draw(st.booleans())) else [draw(st.sampled_from([2, 3])), lo, hi - 1])
        else:
            b1, b2 = (bits >> (j % 62)) & 1, (bits >> ((5 * j + 1) % 62)) & 1
            v = [lo, hi if (b1 and b2) else lo, hi if b1 else lo, hi][dens]
            pi.append([1, v, 0])
    return {"model": spec, "pi": pi, "extra": []}


def check_partial(case, ev):
    import puan
    spec = case["model"]
    m = common.build_valid(case, ev)
    if m is None:
        return
    lv = oracle.leaves(m)
    comps = oracle.compounds(m)
    if any(i in lv for i in comps):
        ev.count("discarded_by_reference_atom")
        return
    ids = sorted(lv)
    interp = {}
    open_box = []
    sids = sorted(oracle.spec_leaves(spec))      # drawn list is aligned with the spec's leaf ids
    for i, (mode, a, b) in zip(sids, case["pi"]):
        if i not in lv:
            continue
        lo, hi = lv[i]
        if mode == 0:
            open_box.append((lo, hi))
        elif mode == 1:
            interp[i] = a if (a + b) % 2 == 0 else common.narrow(a, unsigned_ok=True)
            open_box.append((a, a))
        elif mode == 2:
            interp[i] = (a, b)
            open_box.append((a, b))
        else:
            interp[i] = puan.Bounds(a, b)
            open_box.append((a, b))
    warmed = len(str(case["pi"])) % 2 == 1
    if warmed:
        # the same object has answered other questions before (a total interpretation, then an assumption on one leaf): the
        # property speaks about every (model, interpretation) pair, whatever the object was asked earlier; the declared
        # bounds used by the oracle were read off the fresh object above
        total = {i: (lv[i][0] if (j + len(ids)) % 2 else lv[i][1]) for j, i in enumerate(ids)}
        # interval entries given as Bounds objects: the caller's objects were first used with the full declared range or with the
        # lower end only and are then updated in place to the interval under test (Bounds is a plain mutable dataclass)
        reused = {i: (puan.Bounds(lv[i][0], lv[i][1]) if (j + len(ids)) % 2 else puan.Bounds(int(v.lower), int(v.lower)))
                  for j, (i, v) in enumerate(sorted(interp.items())) if isinstance(v, puan.Bounds)}
        total.update(reused)
        call(m.evaluate, total, what="evaluate (earlier query)")
        call(m.assume, {ids[0]: total[ids[0]]}, what="assume (earlier query)")
        for i, r in reused.items():
            r.lower, r.upper = int(interp[i].lower), int(interp[i].upper)
            interp[i] = r
        ev.count("objects_queried_before")
    res = call(m.evaluate_propositions, dict(interp), what="evaluate_propositions")
    top = oracle.bounds_tuple(call(m.evaluate, dict(interp), what="evaluate"))
    if m.id not in res or oracle.bounds_tuple(res[m.id]) != top:
        raise Violation(f"evaluate()={top} differs from the root entry of evaluate_propositions "
                        f"{oracle.bounds_tuple(res[m.id]) if m.id in res else None}")
    rep = {}
    for k, b in res.items():
        if k not in lv and k not in comps:
            raise Violation(f"evaluate_propositions reports unknown id {k!r}")
        rep[k] = oracle.bounds_tuple(b)
    size = oracle.box_size(open_box)
    if size <= 3000:
        pts = itertools.product(*[range(lo, hi + 1) for lo, hi in open_box])
        mode = "enumerated"
    else:
        corners = list(itertools.islice(itertools.product(*[(lo, hi) if lo != hi else (lo,) for lo, hi in open_box]), 512))
        folded = [tuple(lo + (v % (hi - lo + 1)) for v, (lo, hi) in zip(e, open_box)) for e in case["extra"]]
        pts = corners + folded
        mode = "corners+sampled"
    n = 0
    for p in pts:
        n += 1
        env = dict(zip(ids, p))
        memo = {}
        for k, (l, u) in rep.items():
            v = env[k] if k in lv else oracle.obj_value(comps[k], env, None, memo)
            if not l <= v <= u:
                raise Violation(f"reported bounds {(l, u)} for {k!r} under interpretation {_show(interp)} do not contain its value {v} "
                                f"under completion {env}")
    ev.count("completions", n)
    n_open = sum(1 for lo, hi in open_box if lo != hi)
    const_with_open = False
    if n_open:
        for k, (l, u) in rep.items():
            if k in comps and l == u and comps[k].variable.bounds.lower != comps[k].variable.bounds.upper:
                sub = oracle.leaves(comps[k])
                if any(open_box[ids.index(j)][0] != open_box[ids.index(j)][1] for j in sub):
                    const_with_open = True
                    break
    cl = common.model_classes(spec, m) + ["completions_" + mode] + (["object_queried_before"] if warmed else [])
    if const_with_open:
        cl.append("constant_with_open_leaf")
    if top[0] == top[1]:
        cl.append("root_decided")
    if any(p[0] >= 2 for p in case["pi"]):
        cl.append("interval_valued")
    ev.case(case, const_with_open, cl)


def _show(interp):
    return {k: (oracle.bounds_tuple(v) if hasattr(v, "lower") else v) for k, v in interp.items()}


def check_flags(case, ev):
    spec = case["model"]
    m = common.build_valid(case, ev)
    if m is None:
        return
    comps = oracle.compounds(m)
    flagged = False
    n_nodes = 0
    boxes = {cid: [(int(c.bounds.lower), int(c.bounds.upper)) for c in node.propositions] for cid, node in comps.items()}
    if len(str(spec)) % 2 == 1:
        # flags are read after the object has evaluated a total interpretation (declared boxes were read before)
        lv = oracle.leaves(m)
        if lv and not any(i in lv for i in comps):
            call(m.evaluate, {i: b[1] for i, b in lv.items()}, what="evaluate (earlier query)")
            call(m.evaluate_propositions, {i: b[0] for i, b in lv.items()}, what="evaluate_propositions (earlier query)")
            ev.count("objects_queried_before")
    for cid, node in comps.items():
        n_nodes += 1
        box = boxes[cid]
        sgn, val = int(node.sign), int(node.value)
        if oracle.box_size(box) <= 4000:
            it = itertools.product(*[range(lo, hi + 1) for lo, hi in box])
        else:
            it = itertools.product(*[(lo, hi) for lo, hi in box])
        mn = mx = None
        for p in it:
            e = sgn * sum(p) - val
            mn = e if mn is None or e < mn else mn
            mx = e if mx is None or e > mx else mx
        eb = call(lambda: node.equation_bounds, what="equation_bounds")
        got = (int(eb[0]), int(eb[1]))
        if got != (mn, mx):
            raise Violation(f"node {node!r}: equation_bounds={got}, attainable range over children box {box} is {(mn, mx)}")
        taut = bool(call(lambda: node.is_tautology, what="is_tautology"))
        contr = bool(call(lambda: node.is_contradiction, what="is_contradiction"))
        if taut != (mn >= 0):
            raise Violation(f"node {node!r}: is_tautology={taut} but min of sign*sum-value over children box {box} is {mn}")
        if contr != (mx < 0):
            raise Violation(f"node {node!r}: is_contradiction={contr} but max of sign*sum-value over children box {box} is {mx}")
        flagged = flagged or taut or contr
    ev.count("nodes", n_nodes)
    cl = common.model_classes(spec, m)
    if flagged:
        cl.append("flag_set")
    ev.case(case, flagged, cl)


def shapes(slice_i, n):
    for spec in S.small_shapes(slice_i, n):
        yield {"model": spec}


def shapes_partial(slice_i, n):
    """every small shape under the three most telling partial interpretations: nothing given, the integer leaf as a
    sub-range, the integer leaf as a constant"""
    for spec in S.small_shapes(slice_i, n):
        ids = sorted(oracle.spec_leaves(spec))
        for t_entry in ([0, 0, 0], [2, -1, 1], [3, 0, 2], [1, -2, 0]):
            pi = [t_entry if i == "t" else [0, 0, 0] for i in ids]
            yield {"model": spec, "pi": pi, "extra": []}


def empty(slice_i, n):
    """groups without sub-propositions, alone and inside every connective"""
    from vf import strategies as S_
    for spec in S_.empty_shapes(slice_i, n):
        yield {"model": spec}

def parts(tier):
    return [Part("scale", strategy=lambda t: scale_partial_case(t), check=check_partial, quick=(2, 40), thorough=(4, 500)), Part("flag_empty0", enumerate_cases=(lambda t: empty(0, 1)), check=check_flags, time_quick=120.0), Part("partial_empty0", enumerate_cases=(lambda t: ({"model": c_["model"], "pi": [[0, 0, 0]] * 4, "extra": []} for c_ in empty(0, 1))), check=check_partial, time_quick=120.0), Part("wide_nodes", strategy=lambda t: wide_partial_case(t), check=check_partial, quick=(3, 250), thorough=(6, 2500))] + [Part("flag_shapes%d" % i, enumerate_cases=(lambda t, i=i: shapes(i, 2)), check=check_flags, time_quick=120.0) for i in range(2)] + \
           [Part("partial_shapes%d" % i, enumerate_cases=(lambda t, i=i: shapes_partial(i, 4)), check=check_partial, time_quick=120.0) for i in range(4)] + [
        Part("partial", strategy=lambda t: partial_case(t), check=check_partial, quick=(6, 350), thorough=(12, 2500)),
        Part("flags", strategy=lambda t: st.sampled_from(["large", "huge"]).flatmap(lambda pr_: S.model_spec(depth=3, allow_fix=True, allow_const_leaves=True,
                                                      profile=pr_)).map(lambda s: {"model": s}),
             check=check_flags, quick=(2, 600), thorough=(4, 3000)),
    ]
