"""C03 - Evaluation computes the arithmetic truth function of every node."""
from hypothesis import strategies as st

from vf import build, oracle
from vf.core import Part, Violation, call
from vf.props import common

PROPERTY = "C03"
RULE = ("Parts 'shapes*': EXHAUSTIVE enumeration of every single threshold node (all values/signs, 1-2 children from a boolean "
        "and an integer leaf with negative lower bound) alone and inside every connective, on every leaf assignment. Part 'evaluate': Hypothesis generates validated model DAG specs (pre-fixed nodes and constant leaves allowed) x total in-bounds leaf "
        "interpretations (box enumerated when <=200 points, else drawn), each value passed as int / numpy int / (v,v) tuple / "
        "Bounds(v,v) chosen per leaf by a drawn form list, x optional overrides {sub-proposition id: 0|1}. Every evaluation "
        "with overrides runs on a freshly built object. Oracle: own bottom-up arithmetic evaluator over the built object "
        "graph (sign*sum(children) >= value; fixed/overridden nodes take their constant). Non-trivial = some node has "
        "negative sign and a non-zero child sum, or an integer leaf takes a negative value, or an override changes the root "
        "value; distinct = SHA-1 of the canonical case JSON.")
ASSUMPTIONS = ["nodes below a fixed/overridden node may be omitted from evaluate_propositions (only reported ids are compared, "
               "but every node reachable without crossing a fixed/overridden node must be reported)"]


@st.composite
def case_strategy(draw, tier):
    c = draw(common.model_case(guard=200, n_points=(8, 24), depth=3 if tier == "quick" else 4, allow_fix=True,
                               allow_const_leaves=True, profile=draw(st.sampled_from(["small", "small", "large", "huge"]))))
    c["forms"] = draw(st.lists(st.integers(0, 5), min_size=1, max_size=8))
    c["ov"] = draw(st.lists(st.tuples(st.integers(0, 30), st.integers(0, 1), st.integers(0, 2)), max_size=3)) \
        if draw(st.booleans()) else []
    c["ov"] = [list(x) for x in c["ov"]]
    return c


def _form(v, f):
    import numpy as np
    import puan
    if f == 0:
        return v
    if f == 1:
        return (v, v)
    if f == 2:
        return puan.Bounds(v, v)
    if f == 3:
        return np.int64(v)
    if f == 4:
        return common.narrow(v)
    # (narrow numpy integers INSIDE tuples / Bounds are not generated: the annotations say Tuple[int, int], only scalar
    #  numpy integers are explicitly accepted and cast, and the unchanged library already overflows on the sign flip for them)
    return common.narrow(v, unsigned_ok=True)


def reachable(m, cut_ids):
    """ids reachable from the root without passing through a cut (fixed/overridden) compound"""
    out = set()
    stack = [m]
    seen = set()
    while stack:
        x = stack.pop()
        if id(x) in seen:
            continue
        seen.add(id(x))
        out.add(x.id)
        if not oracle.is_leaf(x) and x.id not in cut_ids:
            stack.extend(x.propositions)
    return out


def check(case, ev):
    spec = case["model"]
    m = common.build_valid(case, ev)
    if m is None:
        return
    lv = oracle.leaves(m)
    comps = oracle.compounds(m)
    if any(i in lv for i in comps):
        ev.count("discarded_by_reference_atom")
        return
    cids = sorted(comps)
    fixed_ids = {i for i, n in comps.items() if n.variable.bounds.lower == n.variable.bounds.upper}
    overrides = {}
    ov_forms = {}
    for k, val, f in case["ov"]:
        cid = cids[k % len(cids)]
        if cid in fixed_ids:
            continue
        overrides[cid] = val
        ov_forms[cid] = f
    forms = case["forms"]
    ids = sorted(lv)
    nt = False
    n = 0
    root_changed = False
    carriers = {}
    for env in common.assignments(case, lv):
        n += 1
        if n > 64:
            break
        interp = {i: _form(env[i], forms[(j + n) % len(forms)]) for j, i in enumerate(ids)}
        for i in ids:
            # a caller that keeps ONE Bounds object per variable and updates it in place between calls (Bounds is a plain
            # mutable dataclass)
            if hasattr(interp[i], "lower") and n % 2 == 0:
                if i in carriers:
                    carriers[i].lower, carriers[i].upper = min(env[i], carriers[i].lower), max(env[i], carriers[i].upper)   # never lower > upper on the way
                    carriers[i].lower = carriers[i].upper = env[i]
                    interp[i] = carriers[i]
                else:
                    carriers[i] = interp[i]
        for cid, val in overrides.items():
            interp[cid] = _form(val, ov_forms[cid] if ov_forms[cid] < 3 else 0)
        mm = build.model(spec) if overrides else m
        res = call(mm.evaluate_propositions, interp, what="evaluate_propositions")
        memo = {}
        want_root = oracle.obj_value(m, env, overrides, memo)
        cut = set(overrides) | fixed_ids
        need = reachable(m, cut)
        for i in need:
            if i not in res:
                raise Violation(f"evaluate_propositions does not report reachable id {i!r}; interpretation={_show(interp)}")
        for i, b in res.items():
            got = oracle.bounds_tuple(b)
            if i in lv:
                want = env[i]
            elif i in comps:
                want = oracle.obj_value(comps[i], env, overrides, memo)
            else:
                raise Violation(f"evaluate_propositions reports unknown id {i!r}")
            if got != (want, want):
                raise Violation(f"evaluate_propositions[{i!r}]={got}, arithmetic value {want}; interpretation={_show(interp)}")
        if n % 5 == 0:
            # the documented ``out`` callback changes the value type of every entry, nothing else
            mm3 = build.model(spec) if overrides else m
            res3 = call(mm3.evaluate_propositions, interp, out=lambda b_: ("out", int(b_.lower), int(b_.upper)), what="evaluate_propositions(out=...)")
            if {k_: ("out",) + oracle.bounds_tuple(v_) for k_, v_ in res.items()} != res3:
                raise Violation(f"evaluate_propositions(out=callback) is not the callback applied to the plain result: {res3} vs {res}")
        mm2 = build.model(spec) if overrides else m
        top = oracle.bounds_tuple(call(mm2.evaluate, interp, what="evaluate"))
        if top != (want_root, want_root):
            raise Violation(f"evaluate()={top} but top arithmetic value is {want_root}; interpretation={_show(interp)}")
        if overrides and not root_changed:
            if oracle.obj_value(m, env, None, {}) != want_root:
                root_changed = True
        if not nt:
            if any(v < 0 for v in env.values()):
                nt = True
            else:
                for node in comps.values():
                    if int(node.sign) == -1 and node.id not in cut:
                        if sum(oracle.obj_value(c, env, overrides, memo) for c in node.propositions) != 0:
                            nt = True
                            break
    ev.count("evaluations", n)
    cl = common.model_classes(spec, m)
    if overrides:
        cl.append("with_overrides")
    if root_changed:
        cl.append("override_changes_root")
    if fixed_ids:
        cl.append("prefixed_node")
    ev.case(case, nt or root_changed, cl)


def _show(interp):
    return {k: (oracle.bounds_tuple(v) if hasattr(v, "lower") else (int(v) if not isinstance(v, tuple) else v)) for k, v in interp.items()}


def shapes(slice_i, n):
    from vf import strategies as S
    for spec in S.small_shapes(slice_i, n):
        yield {"model": spec, "points": None, "forms": [0, 4, 1, 5, 2, 3], "ov": []}


def mixed(slice_i, n):
    from vf import strategies as S_
    for spec in S_.mixed_shapes(slice_i, n):
        yield {"model": spec, "points": None, "forms": [0, 4, 1, 5, 2, 3], "ov": []}


def empty(slice_i, n):
    """groups without sub-propositions, alone and inside every connective"""
    from vf import strategies as S_
    for spec in S_.empty_shapes(slice_i, n):
        yield {"model": spec, "points": None, "forms": [0, 4, 1, 5, 2, 3], "ov": []}

def parts(tier):
    return [Part("wide_thresholds", enumerate_cases=(lambda t: (dict(c_, forms=[0, 4, 1, 2], ov=[]) for c_ in __import__("vf.strategies", fromlist=["x"]).wide_threshold_cases())), check=check, time_quick=200.0), Part("scale", strategy=lambda t: __import__("vf.strategies", fromlist=["x"]).scale_case(allow_const=True).map(lambda c: dict(c, forms=[0, 4, 1, 2], ov=[])), check=check, quick=(2, 40), thorough=(4, 600)), Part("shared_depths", enumerate_cases=(lambda t: ({"model": s_, "points": None, "forms": [0, 4, 1, 5, 2, 3], "ov": []} for s_ in __import__("vf.strategies", fromlist=["x"]).shared_depth_shapes())), check=check, time_quick=120.0), Part("adversarial_valid", strategy=lambda t: __import__("vf.props.c01", fromlist=["x"])._adversarial(t).map(lambda c_: dict(c_, forms=[0, 4, 1, 5, 2, 3], ov=[])), check=check, quick=(2, 400), thorough=(4, 4000)), Part("empty0", enumerate_cases=(lambda t: empty(0, 1)), check=check, time_quick=120.0), Part("wide_nodes", strategy=lambda t: __import__("vf.strategies", fromlist=["x"]).wide_case(allow_const=True).map(lambda c: dict(c, forms=[0, 4, 1, 2], ov=[])), check=check, quick=(2, 150), thorough=(4, 2000))] + [Part("class_twins", strategy=lambda t: __import__("vf.strategies", fromlist=["x"]).class_twin_spec().map(lambda s_: {"model": s_, "points": None, "forms": [0, 4, 1, 5, 2, 3], "ov": []}), check=check, quick=(1, 300), thorough=(2, 3000))] + [Part("mixed%d" % i, enumerate_cases=(lambda t, i=i: mixed(i, 8)), check=check, time_quick=150.0) for i in range(8)] + [Part("shapes%d" % i, enumerate_cases=(lambda t, i=i: shapes(i, 4)), check=check, time_quick=120.0) for i in range(4)] + [Part("evaluate", strategy=lambda t: case_strategy(t), check=check, quick=(8, 200), thorough=(16, 1500))]
