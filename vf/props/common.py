"""Helpers shared by the model-based property modules."""
from hypothesis import strategies as st

from vf import build, oracle, strategies as S
from vf.core import Violation, call


def thresholds(spec):
    vals = set()
    for n in oracle.spec_nodes(spec):
        if "v" in n:
            v = n["v"]
            vals.update([v, -v])
            k = max(1, len(n.get("c", [])))
            vals.update([v // k, -(v // k)])
    return vals


@st.composite
def model_case(draw, guard=3000, n_points=(16, 48), **kw):
    """{"model": spec, "points": None | [[int per leaf in sorted id order], ...]}"""
    spec = draw(S.model_spec(**kw))
    lv = oracle.spec_leaves(spec)
    ids = sorted(lv)
    bounds = [lv[i] for i in ids]
    if oracle.box_size(bounds) <= guard:
        return {"model": spec, "points": None}
    hints = thresholds(spec)
    n = draw(st.integers(*n_points))
    strat = st.tuples(*[S.near(hints, lo, hi) for lo, hi in bounds])
    pts = draw(st.lists(strat, min_size=n, max_size=n))
    return {"model": spec, "points": [list(p) for p in pts]}


def assignments(case, leaf_bounds):
    """Iterate leaf environments for a case: full enumeration or the drawn sample.
    ``leaf_bounds`` come from the built object (id -> (lo,hi)); drawn points follow sorted spec ids."""
    ids = sorted(leaf_bounds)
    if case.get("points") is None:
        bnds = [leaf_bounds[i] for i in ids]
        if oracle.box_size(bnds) > 20000:      # only reachable for enumerated families with a wide leaf
            import itertools
            hints = thresholds(case["model"]) if "model" in case else set()
            cand = []
            for lo, hi in bnds:
                if hi - lo <= 12:
                    cand.append(list(range(lo, hi + 1)))
                else:
                    vs = {lo, lo + 1, hi - 1, hi, -1, 0, 1, 2}
                    for h in hints:
                        vs.update((h - 1, h, h + 1))
                    cand.append(sorted(v for v in vs if lo <= v <= hi)[:14])
            for p_ in itertools.product(*cand):
                yield dict(zip(ids, p_))
            return
        yield from oracle.box_points(ids, bnds)
    else:
        spec_ids = sorted(oracle.spec_leaves(case["model"]))
        for p in case["points"]:
            env = dict(zip(spec_ids, p))
            yield {i: env[i] for i in ids}


def build_valid(case_or_spec, ev):
    """Build a model; returns None (and counts) when validation rejects it."""
    spec = case_or_spec["model"] if "model" in case_or_spec else case_or_spec
    m = call(build.model, spec, what="constructing the model")
    errs = call(m.errors, what="errors()")
    if errs:
        ev.count("discarded_invalid")
        return None
    return m


def model_classes(spec, m=None):
    """class labels for the evidence histogram"""
    nodes = oracle.spec_nodes(spec)
    cl = []
    d = oracle.spec_depth(spec)
    cl.append("depth>=2" if d >= 2 else "depth<2")
    if d >= 3:
        cl.append("depth>=3")
    if "root" in spec and any(n["k"] == "ref" for n in nodes):
        cl.append("shared_subproposition")
    if any(n["k"] == "leaf" and tuple(n["b"]) != (0, 1) for n in nodes):
        cl.append("integer_leaf")
    if any(n["k"] == "leaf" and (n["b"][0] < -100 or n["b"][1] > 100) for n in nodes):
        cl.append("16bit_leaf")
    if any(n["k"] == "leaf" and n["b"][0] < 0 for n in nodes):
        cl.append("negative_lower_bound")
    for n in nodes:
        if n["k"] not in ("leaf", "ref"):
            kinds = {c["k"] == "leaf" for c in n["c"]}
            if kinds == {True, False}:
                cl.append("mixed_children")
                break
    if any(n["k"] in ("Not", "Imply", "XNor") for n in nodes):
        cl.append("negating_connective")
    if any(n["k"] not in ("leaf", "ref", "Not") and n.get("id") is None for n in nodes):
        cl.append("generated_id")
    if any(len(n.get("c", [])) >= 4 for n in nodes):
        cl.append("wide_node>=4")
    if m is not None and not oracle.solver_safe(m):
        cl.append("not_solver_safe")
    return cl


def ambiguous_prio(c):
    """True when some id is carried by several objects that disagree on their ``prio`` tag (e.g. the complement group
    Any(b,c) of a defaulted Any and a plain rule Any(b,c) get the same generated id). default_prios then depends on which
    object a set happens to keep - the configurator itself is ambiguous, so it is outside the domain of C14/C16/C18."""
    tags = {}
    for x in oracle.walk(c):
        if not oracle.is_leaf(x):
            tags.setdefault(x.id, set()).add(getattr(x, "prio", None))
    return any(len(v) > 1 for v in tags.values())


def narrow(v, unsigned_ok=False):
    """the value as the narrowest numpy fixed-width integer that holds it (callers hand numpy scalars of any width to the
    library: rows of int16 arrays, results of numpy arithmetic, ...)"""
    import numpy as np
    v = int(v)
    if unsigned_ok and v >= 0:
        for t in (np.uint8, np.uint16, np.uint32, np.uint64):
            if v <= np.iinfo(t).max:
                return t(v)
    for t in (np.int8, np.int16, np.int32, np.int64):
        if np.iinfo(t).min <= v <= np.iinfo(t).max:
            return t(v)
    return v


def twins_one_occurrence(spec, limit=3):
    """Twins of a model spec that differ in the bounds of ONE leaf occurrence only, by a pair that an additive hash cannot
    tell apart (same lower+upper, or lower bound -1 <-> -2). Deepest occurrences first."""
    import copy
    occ = []

    def rec(n, depth, path):
        if n["k"] == "leaf":
            occ.append((depth, path))
        for j, c in enumerate(n.get("c", [])):
            rec(c, depth + 1, path + [j])
    root = spec["root"] if "root" in spec else spec
    rec(root, 0, [])
    out = []
    for depth, path in sorted(occ, key=lambda t: -t[0]):
        tw = copy.deepcopy(spec)
        n = tw["root"] if "root" in tw else tw
        for j in path:
            n = n["c"][j]
        lo, hi = n["b"]
        if hi - lo >= 2:
            n["b"] = [lo + 1, hi - 1]
        elif lo == -1:
            n["b"] = [-2, hi]
        elif lo == -2:
            n["b"] = [-1, hi]
        else:
            n["b"] = [lo - 1, hi + 1]
        n.pop("str", None)
        out.append(tw)
        if len(out) >= limit:
            break
    return out
