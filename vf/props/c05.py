"""C05 - Negation is the exact complement and stays in solver-safe form."""
from hypothesis import strategies as st

from vf import build, oracle, strategies as S
from vf.core import Part, Violation, call
from vf.props import common

PROPERTY = "C05"
RULE = ("Parts 'shapes*': EXHAUSTIVE enumeration of every single threshold node (all values/signs, 1-2 children from a boolean "
        "and an integer leaf with negative lower bound) alone and inside every connective. Other parts: Hypothesis generates validated model DAG specs (all connectives, all value/sign combinations, atoms only / compounds "
        "only / mixed children, boolean and integer leaves incl. negative ranges) x all in-bounds leaf assignments "
        "(enumerated up to the guard, else boundary/threshold-biased drawn points); both m.negate() and Not(m) are taken. "
        "Oracle: reference arithmetic value of the ORIGINAL built object vs. value of the negated object (reference "
        "evaluator over the structure negate() produced, plus puan's own evaluate on a few points) must be complementary; "
        "the negated model must validate; an explicit id must be kept; if the original is solver-safe and all leaves are "
        "boolean the negated model must be solver-safe. Non-trivial = the negated root has positive sign and >=1 compound "
        "child (inward-push branch), or the model has integer leaves with both truth values occurring; distinct = SHA-1 of "
        "the canonical case JSON.")
ASSUMPTIONS = ["pre-fixed sub-propositions are outside this check's domain (negate() keeps a fixed variable)"]


def check(case, ev):
    import puan.logic.plog as pg
    spec = case["model"]
    m = common.build_valid(case, ev)
    if m is None:
        return
    lv = oracle.leaves(m)
    comps = oracle.compounds(m)
    if any(i in lv for i in comps):
        ev.count("discarded_by_reference_atom")
        return
    via_not = case.get("via_not", False)
    if via_not:
        neg = call(pg.Not, build.model(spec), what="Not(model)")
    else:
        neg = call(m.negate, what="negate()")
    # NOTE: the statement does not promise that the negated model validates: negate() keeps explicit ids, so a
    # shared explicit-id sub-proposition that ends up both negated and un-negated is (rightly) rejected as
    # ambivalent by errors(). Evaluation is structural and still well defined; only counted here.
    neg_invalid = bool(call(neg.errors, what="negated.errors()"))
    if not m.generated_id and neg.id != m.id:
        raise Violation(f"explicit id {m.id!r} not kept by negation (got {neg.id!r})")
    nlv = oracle.leaves(neg)
    if nlv != lv:
        raise Violation(f"negated model has different leaf variables: {nlv} vs {lv}")
    all_bool = all(b == (0, 1) for b in lv.values())
    safe = oracle.solver_safe(m)
    if safe and all_bool and not oracle.solver_safe(neg):
        raise Violation("negation of a solver-safe model over boolean leaves is not in solver-safe form "
                        "(a sub-proposition sits under a negatively signed parent)")
    vals = set()
    n = 0
    for env in common.assignments(case, lv):
        n += 1
        o = oracle.obj_value(m, env)
        g = oracle.obj_value(neg, env)
        vals.add(o)
        if g != 1 - o:
            raise Violation(f"negation is not the complement on {env}: original={o}, negated={g}")
        if n <= 4:
            got = oracle.bounds_tuple(call(neg.evaluate, dict(env), what="negated.evaluate"))
            if got != (1 - o, 1 - o):
                raise Violation(f"negated.evaluate()={got} on {env}, original evaluates to {o}")
    ev.count("assignments", n)
    cl = common.model_classes(spec, m)
    ncomp = sum(1 for c in neg.propositions if not oracle.is_leaf(c))
    natom = len(neg.propositions) - ncomp
    pushed = int(neg.sign) == 1 and ncomp >= 1 and int(m.sign) == 1
    root_children = [oracle.is_leaf(c) for c in m.propositions]
    if int(m.sign) == 1 and any(root_children) and not all(root_children):
        cl.append("root_positive_mixed")
    if int(m.sign) == 1 and not any(root_children):
        cl.append("root_positive_all_compound")
    if pushed:
        cl.append("inward_push")
    if safe and all_bool:
        cl.append("solver_safe_boolean")
    cl.append("via_Not" if via_not else "via_negate")
    if not m.generated_id:
        cl.append("explicit_root_id")
    if neg_invalid:
        cl.append("negated_model_fails_validation")
    nontrivial = pushed or (not all_bool and vals == {0, 1})
    ev.case(case, nontrivial, cl)


@st.composite
def strat(draw, tier, profile):
    c = draw(common.model_case(guard=1500 if tier == "quick" else 5000, depth=3 if tier == "quick" else 4, profile=profile,
                               max_int=draw(st.sampled_from([0, 0, 2, 3]))))
    c["via_not"] = draw(st.booleans())
    return c


@st.composite
def focus(draw, tier):
    spec = draw(S.negation_focus_spec(int_leaves=draw(st.booleans()), depth=2 if tier == "quick" else 3,
                                      outer_connective=draw(st.integers(0, 3)) == 0))
    return {"model": spec, "points": None, "via_not": draw(st.booleans())}


def shapes(slice_i, n):
    for spec in S.small_shapes(slice_i, n):
        for via in (False, True):
            yield {"model": spec, "points": None, "via_not": via}


def mixed(slice_i, n):
    from vf import strategies as S_
    for spec in S_.mixed_shapes(slice_i, n):
        for via in (False, True):
            yield {"model": spec, "points": None, "via_not": via}


def empty(slice_i, n):
    """groups without sub-propositions, alone and inside every connective"""
    from vf import strategies as S_
    for spec in S_.empty_shapes(slice_i, n):
        yield {"model": spec, "points": None, "via_not": bool(len(str(spec)) % 2)}

@st.composite
def wide_mixed_case(draw, tier):
    """a threshold node that mixes MANY atoms (around 64 / 128 / 256) with 1-2 compound children - the branch of negate() that
    regroups atoms - judged on the all-zero and all-one assignments, on one-hot assignments at the ends and at the block
    boundaries of the atom list, and on a few sparse ones"""
    n = draw(st.sampled_from([17, 33, 63, 64, 65, 66, 100, 127, 128, 129, 130, 200, 257]))
    atoms = [{"k": "leaf", "id": "x%03d" % i, "b": [0, 1]} for i in range(n)]
    if draw(st.integers(0, 4)) == 0:
        atoms[draw(st.integers(0, n - 1))]["b"] = [0, 3]
    comps = [{"k": draw(st.sampled_from(["All", "Any"])), "id": draw(st.sampled_from(["P%d" % j, None])),
              "c": [{"k": "leaf", "id": "p%d" % j, "b": [0, 1]}, {"k": "leaf", "id": "q%d" % j, "b": [0, 1]}]} for j in range(draw(st.integers(1, 2)))]
    kind = draw(st.sampled_from(["Any", "Any", "AtLeast", "All"]))
    node = {"k": kind, "id": draw(st.sampled_from(["A", None])), "c": atoms + comps}
    if kind == "AtLeast":
        node["v"], node["s"] = draw(st.sampled_from([1, 1, 2, n // 2, n])), 1
    lv = oracle.spec_leaves(node)
    ids = sorted(lv)
    base = {i: 0 for i in ids}
    pts = [dict(base), {i: lv[i][1] for i in ids}]
    hot = sorted({0, 1, 62, 63, 64, 65, 127, 128, n - 2, n - 1} & set(range(n)))
    for h in hot:
        pts.append(dict(base, **{"x%03d" % h: 1}))
        pts.append(dict(base, **{"x%03d" % h: 1, "p0": 1, "q0": 1}))
    for _ in range(4):
        on = draw(st.lists(st.integers(0, n - 1), min_size=2, max_size=5, unique=True))
        pts.append(dict(base, **{"x%03d" % h: 1 for h in on}))
    return {"model": node, "points": [[p_[i] for i in ids] for p_ in pts], "via_not": draw(st.booleans())}


def parts(tier):
    return [Part("cfg_shapes", enumerate_cases=(lambda t: ({"model": s_, "points": None, "via_not": bool(j_ % 2)} for j_, s_ in enumerate(S.cfg_small_shapes()))), check=check, time_quick=150.0), Part("wide_thresholds", enumerate_cases=(lambda t: (dict(c_, via_not=bool(j_ % 2)) for j_, c_ in enumerate(__import__("vf.strategies", fromlist=["x"]).wide_threshold_cases()) if c_["model"]["k"] != "Not")), check=check, time_quick=200.0), Part("wide_mixed", strategy=lambda t: wide_mixed_case(t), check=check, quick=(2, 40), thorough=(4, 500)), Part("scale", strategy=lambda t: __import__("vf.strategies", fromlist=["x"]).scale_case().map(lambda c: dict(c, via_not=len(str(c)) % 2 == 0)), check=check, quick=(2, 40), thorough=(4, 600)), Part("concat_names", enumerate_cases=(lambda t: ({"model": s_, "points": None, "via_not": v_} for s_ in __import__("vf.strategies", fromlist=["x"]).concat_shapes() for v_ in (False, True))), check=check, time_quick=120.0), Part("shared_depths", enumerate_cases=(lambda t: ({"model": s_, "points": None, "via_not": bool(len(str(s_)) % 2)} for s_ in __import__("vf.strategies", fromlist=["x"]).shared_depth_shapes())), check=check, time_quick=120.0), Part("empty0", enumerate_cases=(lambda t: empty(0, 1)), check=check, time_quick=120.0), Part("wide_nodes", strategy=lambda t: __import__("vf.strategies", fromlist=["x"]).wide_case().map(lambda c: dict(c, via_not=len(str(c)) % 2 == 0)), check=check, quick=(2, 150), thorough=(4, 2000))] + [Part("mixed%d" % i, enumerate_cases=(lambda t, i=i: mixed(i, 8)), check=check, time_quick=150.0) for i in range(8)] + [Part("shapes%d" % i, enumerate_cases=(lambda t, i=i: shapes(i, 4)), check=check, time_quick=120.0) for i in range(4)] + [
        Part("thresholds", strategy=lambda t: focus(t), check=check, quick=(2, 400), thorough=(4, 3000)),
        Part("small", strategy=lambda t: strat(t, "small"), check=check, quick=(6, 350), thorough=(12, 2500)),
        Part("large", strategy=lambda t: strat(t, "large"), check=check, quick=(2, 250), thorough=(4, 1500)),
    ]
