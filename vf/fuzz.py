"""Coverage-guided campaign for one part (thorough tier extra):

    python -m vf.fuzz <PROP> <part> <tier> <seed> <runs> <outfile>

atheris (libFuzzer) drives the part's Hypothesis strategy through ``fuzz_one_input`` with puan instrumented for coverage,
so the byte-level mutations are guided towards new branches of the library while the cases stay structurally valid and
the semantic oracle (the part's ``check``) runs inside the target. libFuzzer never returns from Fuzz(), therefore the
campaign runs in its own process and reports through <outfile> (JSON): counters are flushed every 200 executions, a
violation is written immediately and ends the process."""
import json
import os
import sys
import time


def main(argv):
    prop, part_name, tier, seed_value, runs, outfile = argv[0], argv[1], argv[2], int(argv[3]), int(argv[4]), argv[5]
    import atheris
    with atheris.instrument_imports(include=["puan"]):
        import puan                       # noqa
        import puan.logic.plog            # noqa
        import puan.ndarray               # noqa
        import puan.modules.configurator  # noqa
    import importlib
    from hypothesis import given, settings, HealthCheck, Phase
    from vf import core
    mod = importlib.import_module(f"vf.props.{prop.lower()}")
    part = next(p for p in mod.parts(tier) if p.name == part_name)
    ev = core.Ev()
    state = {"n": 0, "t0": time.monotonic(), "violation": None}

    def flush():
        d = {"part": part_name + "@atheris", "seed": seed_value, "violation": state["violation"], "error": None, "tolerated": [],
             "ev": ev.dump(), "wall_s": time.monotonic() - state["t0"], "fuzz_executions": state["n"]}
        tmp = outfile + ".tmp"
        with open(tmp, "w") as f:
            json.dump(d, f, default=str)
        os.replace(tmp, outfile)

    @settings(database=None, deadline=None, suppress_health_check=list(HealthCheck), phases=[Phase.generate], max_examples=10)
    @given(part.strategy(tier))
    def test(case):
        try:
            part.check(case, ev)
        except core.Violation as v:
            state["violation"] = {"case": case, "detail": v.detail + "\n(found by the coverage-guided campaign)"}
            flush()
            os._exit(0)
        except BaseException as e:  # noqa
            if isinstance(e, (KeyboardInterrupt, SystemExit)):
                raise
            if core.from_puan(e):
                state["violation"] = {"case": case, "detail": f"unexpected exception from puan: {type(e).__name__}: {str(e)[:300]}"}
                flush()
                os._exit(0)
            raise

    fuzz_one = test.hypothesis.fuzz_one_input

    def target(data):
        state["n"] += 1
        fuzz_one(data)
        if state["n"] % 200 == 0:
            flush()
        if state["n"] >= runs:
            flush()
            os._exit(0)

    flush()
    corpus = outfile + ".corpus"
    os.makedirs(corpus, exist_ok=True)
    atheris.Setup([sys.argv[0], corpus, f"-seed={seed_value}", f"-runs={runs + 10}", "-max_len=4096", "-len_control=0"] + ([] if os.environ.get("VF_FUZZ_VERBOSE") else ["-verbosity=0"]), target)
    atheris.Fuzz()


if __name__ == "__main__":
    main(sys.argv[1:])
