"""Hypothesis strategies that generate *specs* (see vf/build.py for the grammar). Constructive:
no assume()/filter() on the hot path."""
from hypothesis import strategies as st

BOOL_IDS = ["a", "b", "c", "d", "e", "f", "g", "h"]
INT_IDS = ["i0", "i1", "i2", "i3"]
CONCAT_IDS = ["a", "b", "ab", "c", "bc", "abc"]
ODD_IDS = ["Zz", "0k", "_u", "~w", "Ab", "å",     # sort before / between / after the compound ids (N.., R.., VAR..)
           "a ", " a", "A", "a\u030a", "b\t"]     # LOOK-ALIKES of other leaf ids: surrounding blanks, case, another unicode composition of 'å'


DIRECT = ("AtLeast", "AtMost", "All", "Any")
DERIVED = ("Xor", "ExactlyOne", "XNor", "Imply", "Not")
ALL_KINDS = DIRECT + DERIVED

N_CHILDREN = [1, 1, 2, 2, 2, 2, 3, 3, 3, 4, 4, 5, 6]


@st.composite
def leaf_pool(draw, profile="small", allow_const=False, max_bool=5, max_int=3, min_leaves=1, odd_ids=True):
    """list of leaf specs with distinct ids"""
    nb = draw(st.integers(0 if max_int else 1, max_bool))
    ni = draw(st.integers(0, max_int)) if max_int else 0
    if nb + ni < min_leaves:
        nb = min_leaves - ni
    pool = []
    bool_ids = list(BOOL_IDS)
    if odd_ids and draw(st.integers(0, 7)) == 0:
        # leaf names that concatenate into one another (generated ids digest the CONCATENATED child ids + value + sign, so
        # Any(a, b) and the single-atom wrapper of 'ab' get the same generated id)
        bool_ids = list(draw(st.permutations(CONCAT_IDS))) + bool_ids
    elif odd_ids and draw(st.integers(0, 3)) == 0:
        # ids that sort before / after the ids of compound propositions (sub propositions are kept sorted by id)
        k = draw(st.integers(1, len(ODD_IDS)))
        bool_ids = list(draw(st.permutations(ODD_IDS)))[:k] + bool_ids
    for i in range(nb):
        leaf = {"k": "leaf", "id": bool_ids[i], "b": [0, 1]}
        r_ = draw(st.integers(0, 11))
        if r_ <= 2:
            leaf["str"] = True
        elif r_ == 3:
            leaf["sub"] = True      # an instance of a user-defined subclass of puan.variable
        elif r_ == 4:
            leaf["dt"] = "bool"     # declared as variable(id, (0, 1), dtype="bool")
        if allow_const and draw(st.integers(0, 5)) == 0:
            c = draw(st.integers(0, 1))
            leaf = {"k": "leaf", "id": bool_ids[i], "b": [c, c]}
        pool.append(leaf)
    for i in range(ni):
        if profile == "huge" and draw(st.integers(0, 3)) > 0:
            # beyond the 16-bit default: single bounds fit 32 bits, sums of two or three do not
            b = list(draw(st.sampled_from([(0, 2_000_000_000), (-2_000_000_000, 2_000_000_000), (-1_500_000_000, 1_200_000_000),
                                           (1_000_000_000, 2_000_000_000), (-2_000_000_000, -1), (0, 2 ** 31 - 1), (-2 ** 31, 0),
                                           (1_200_000_000, 1_200_000_000),
                                           # just beyond the 16-bit default range
                                           (0, 32768), (-32769, 5), (0, 65536), (-40000, 40000), (32767, 32769), (-32770, -32768)])))
            if b[0] == b[1] and not allow_const:
                b = [0, 2_000_000_000]
        elif profile == "large" and draw(st.integers(0, 2)) > 0:
            kind = draw(st.integers(0, 3))
            if kind == 0:
                b = [-32768, draw(st.integers(-32768, 32767))]
            elif kind == 1:
                b = [draw(st.integers(-32768, 32767)), 32767]
            elif kind == 2:
                b = [-32768, 32767]
            else:
                lo = draw(st.integers(-32768, 32767))
                b = [lo, draw(st.integers(lo, 32767))]
        else:
            lo = draw(st.integers(-4, 3))
            w = draw(st.integers(0 if allow_const else 1, 5))
            if w == 0 and not allow_const:
                w = 1
            b = [lo, lo + w]
            if b == [0, 1] and draw(st.booleans()):
                b = [0, 2]
        leaf = {"k": "leaf", "id": INT_IDS[i], "b": b}
        if draw(st.integers(0, 5)) == 0:
            leaf["dt"] = "int"      # declared as variable(id, bounds, dtype="int")
            if b == [-32768, 32767] and draw(st.booleans()):
                leaf["dt_only"] = True      # variable(id, dtype="int"): the default 16-bit range
        pool.append(leaf)
    return pool


class _Ctx:
    def __init__(self, draw, pool, kinds, profile, allow_fix, n_shared, explicit_p, value_hints, positive_only=False):
        self.positive_only = positive_only
        self.draw = draw
        self.pool = pool
        self.kinds = kinds
        self.profile = profile
        self.allow_fix = allow_fix
        self.n_shared = n_shared      # number of shared defs available for ref at this point
        self.explicit_p = explicit_p  # percent probability of explicit id
        self.counter = 0
        self.value_hints = value_hints

    def new_id(self):
        self.counter += 1
        if self.draw(st.integers(0, 11)) == 0:
            return "VARIANT%d" % self.counter       # an explicit id may well start like a generated one
        return "N%d" % self.counter


def _value(ctx, n_children, for_atmost=False):
    d = ctx.draw
    if ctx.profile == "huge" and d(st.integers(0, 1)) == 0:
        return d(st.sampled_from([1, 2_500_000_000, -2_500_000_000, 3_000_000_000, 2 ** 31, -(2 ** 31), 2 ** 31 - 1, 100_000_000,
                                  -1000, 3_500_000_000, 1_200_000_000, 2_400_000_000]))
    if ctx.profile == "large" and d(st.integers(0, 2)) == 0:
        return d(st.one_of(st.integers(-40000, 40000), st.sampled_from([-32768, -32767, 32767, 32768, 65534, -65536])))
    return d(st.integers(-4, max(5, n_children + 1)))


def _node(ctx, depth, negating=False):
    d = ctx.draw
    kind = d(st.sampled_from(ctx.kinds))
    if kind == "Not":
        n = 1
    elif kind == "Imply":
        n = 2
    else:
        n = d(st.sampled_from(N_CHILDREN))
    neg_children = kind in ("Not", "XNor")
    children = []
    used = set()
    for j in range(n):
        child_neg = negating or neg_children or (kind == "Imply" and j == 0)
        r = d(st.integers(0, 9))
        c = None
        if depth > 0 and r >= 5:
            if ctx.n_shared and not child_neg and r == 9:
                i = d(st.integers(0, ctx.n_shared - 1))
                if ("ref", i) not in used:
                    used.add(("ref", i))
                    c = {"k": "ref", "i": i}
            if c is None:
                c = _node(ctx, depth - 1, child_neg)
        if c is None:
            cands = [l for l in ctx.pool if l["id"] not in used]
            if not cands:
                if depth > 0:
                    c = _node(ctx, depth - 1, child_neg)
                else:
                    break
            else:
                c = d(st.sampled_from(cands))
                used.add(c["id"])
        children.append(c)
    if kind == "Imply" and len(children) < 2:
        kind = "Any"
    if kind == "Not":
        return {"k": "Not", "c": children}
    node = {"k": kind, "c": children}
    explicit = d(st.integers(0, 99)) < ctx.explicit_p
    node["id"] = ctx.new_id() if explicit else None
    if explicit and d(st.integers(0, 7)) == 0:
        node["idvar"] = True
    if kind in ("All", "Any", "Xor", "ExactlyOne", "XNor") and d(st.integers(0, 5)) == 0:
        node["fl"] = True       # built through <class>.from_list
    if kind in ("AtLeast", "AtMost") and d(st.integers(0, 5)) == 0:
        node["seq"] = d(st.sampled_from(["tuple", "iter", "gen"]))      # children handed over as another kind of iterable
    if kind == "AtLeast" and ctx.positive_only:
        s = d(st.sampled_from([1, None]))
        node["v"] = d(st.integers(1 if s is None else -1, len(children) + 1))
        node["s"] = s
    elif kind == "AtMost" and ctx.positive_only:
        node["v"] = d(st.integers(-1, len(children) + 1))
    elif kind == "AtLeast":
        node["v"] = _value(ctx, len(children))
        s = d(st.sampled_from([1, -1, 1, -1, None]))
        if s is None and node["v"] <= 0 and d(st.booleans()):
            node["v"] = 1 - node["v"]
        node["s"] = s
    elif kind == "AtMost":
        node["v"] = _value(ctx, len(children))
    if ctx.allow_fix and explicit and d(st.integers(0, 9)) == 0:
        node["fix"] = d(st.integers(0, 1))
    return node


@st.composite
def model_spec(draw, kinds=ALL_KINDS, depth=3, profile="small", allow_fix=False, allow_const_leaves=False,
               share=True, explicit_p=60, max_bool=5, max_int=3, min_leaves=1, odd_ids=True, positive_only=False):
    pool = draw(leaf_pool(profile=profile, allow_const=allow_const_leaves, max_bool=max_bool, max_int=max_int,
                          min_leaves=min_leaves, odd_ids=odd_ids))
    ctx = _Ctx(draw, pool, kinds, profile, allow_fix, 0, explicit_p, None, positive_only)
    shared = []
    if share and depth >= 2 and draw(st.integers(0, 2)) == 0:
        for _ in range(draw(st.integers(1, 2))):
            sk = [k for k in kinds if k != "Not"] or list(kinds)
            saved = ctx.kinds
            ctx.kinds = sk
            shared.append(_node(ctx, depth - 2))
            ctx.kinds = saved
            ctx.n_shared = len(shared)
    dd = draw(st.integers(1, depth)) if depth > 1 else depth
    root = _node(ctx, dd)
    if shared:
        return {"shared": shared, "root": root}
    return root


def near(values, lo, hi):
    """strategy: integers in [lo,hi], biased to the given values +-1 and to the ends"""
    cands = set()
    for v in list(values) + [lo, hi, 0]:
        for dlt in (-1, 0, 1):
            x = v + dlt
            if lo <= x <= hi:
                cands.add(x)
    cands = sorted(cands)
    return st.one_of(st.sampled_from(cands), st.integers(lo, hi))


# ------------------------------------------------------------------------------------------------ scale
@st.composite
def scale_spec(draw, booleans_only=False, allow_const=False):
    """LARGE models, one dimension at a time: 'wide' one node with 17-140 children; 'deep' a chain of 7-40 nested connectives;
    'bushy' a tree with 60-250 nodes; 'many' 20-70 small rules under one conjunction (a rule base); 'longids' ids of
    40-300 characters (also ids that only differ near their end). Sizes are drawn around the round numbers at which
    implementations switch strategy (16, 32, 64, 100, 128)."""
    shape = draw(st.sampled_from(["wide", "wide", "deep", "bushy", "many", "longids", "rulebase"]))
    L = lambda i, b=(0, 1): {"k": "leaf", "id": i, "b": list(b)}
    around = lambda: draw(st.sampled_from([17, 20, 31, 32, 33, 40, 63, 64, 65, 65, 66, 100, 101, 128, 129, 130, 140, 200, 256, 257, 300]))
    if shape == "wide":
        n = around()
        kids = [L("o%03d" % i) for i in range(n)]
        if not booleans_only:
            for j in range(draw(st.integers(0, 3))):
                kids.append(L(draw(st.sampled_from(["a_q%d", "o050x%d", "zz%d"])) % j, draw(st.sampled_from([(0, 5), (-2, 3), (-3, 0), (1, 4)]))))
        for j in range(draw(st.integers(0, 2))):
            sub = [kids[(7 * j + 3 * k) % n] for k in range(draw(st.integers(1, 3)))]
            sub = list({s["id"]: s for s in sub}.values())
            kids.append({"k": draw(st.sampled_from(["Any", "All"])), "id": draw(st.sampled_from([None, "G%d" % j])), "c": sub})
        m = len(kids)
        kind = draw(st.sampled_from(["AtLeast", "AtLeast", "AtMost", "All", "Any", "Xor"]))
        node = {"k": kind, "id": draw(st.sampled_from(["score", None])), "c": kids}
        if kind == "AtLeast":
            node["v"] = draw(st.sampled_from([1, 2, m // 2, m - 1, m, m + 1, n, n - 1, 16, 32, 64]))
            node["s"] = draw(st.sampled_from([1, None, -1]))
            if node["s"] == -1:
                node["v"] = -draw(st.sampled_from([0, 1, m // 2, m - 1, m]))
        elif kind == "AtMost":
            node["v"] = draw(st.sampled_from([0, 1, m // 2, m - 1, m]))
    elif shape == "deep":
        d = draw(st.sampled_from([7, 10, 15, 16, 17, 24, 31, 32, 33, 40]))
        node = {"k": "Any", "id": None, "c": [L("x000"), L("y000")]}
        for j in range(1, d):
            k = draw(st.sampled_from(["All", "Any", "Imply", "Not", "AtLeast", "Xor"]))
            lf = L("x%03d" % j)
            cid = draw(st.sampled_from([None, None, "D%03d" % j]))
            if k == "Not":
                node = {"k": "Not", "c": [node]}
            elif k == "Imply":
                node = {"k": "Imply", "id": cid, "c": [node, lf] if draw(st.booleans()) else [lf, node]}
            elif k == "AtLeast":
                node = {"k": "AtLeast", "v": draw(st.integers(1, 2)), "s": 1, "id": cid, "c": [node, lf]}
            else:
                node = {"k": k, "id": cid, "c": [node, lf]}
    elif shape == "bushy":
        counter = [0]
        target = draw(st.sampled_from([60, 100, 128, 200, 250]))

        def tree(depth):
            if depth == 0:
                counter[0] += 1
                return L("v%03d" % (counter[0] % 90))
            k = draw(st.sampled_from(["All", "Any", "AtLeast", "AtMost", "Imply"]))
            width = 2 if k == "Imply" else draw(st.integers(2, 4))
            ch, seen = [], set()
            for _ in range(width):
                c = tree(depth - 1 if counter[0] < target else 0)
                key = c.get("id") if c["k"] == "leaf" else id(c)
                if key not in seen:
                    seen.add(key)
                    ch.append(c)
            if k == "Imply" and len(ch) < 2:
                k = "Any"
            counter[0] += 1
            n_ = {"k": k, "id": None, "c": ch}
            if k == "AtLeast":
                n_["v"], n_["s"] = draw(st.integers(1, len(ch))), 1
            elif k == "AtMost":
                n_["v"] = draw(st.integers(0, len(ch)))
            return n_
        node = tree(draw(st.integers(3, 5)))
    elif shape == "many":
        r = draw(st.sampled_from([20, 31, 32, 33, 50, 64, 65, 70, 100, 128, 129, 200, 256, 257, 300]))
        nl = draw(st.sampled_from([8, 16, 30, 60, 200, 600]))
        rules = []
        for j in range(r):
            a, b, c = ("i%02d" % ((3 * j + q * (j % 5 + 1)) % nl) for q in range(3))
            k = draw(st.sampled_from(["Imply", "Imply", "Any", "AtMost", "Xor"]))
            if k == "Imply":
                rules.append({"k": "Imply", "id": "R%03d" % j, "c": [L(a), L(b)] if a != b else [L(a), L("zz")]})
            else:
                ch = list({x: L(x) for x in (a, b, c)}.values())
                n_ = {"k": k, "id": "R%03d" % j, "c": ch}
                if k == "AtMost":
                    n_["v"] = 1
                rules.append(n_)
        node = {"k": "All", "id": "rules", "c": rules}
    elif shape == "rulebase":
        # MANY independent rules over disjoint leaves, every rule satisfied by the all-ones assignment: a model with hundreds
        # of rows / objects that still has satisfying assignments to start from
        r = draw(st.sampled_from([64, 65, 86, 100, 128, 129, 255, 256, 257, 300]))
        rules = []
        for j in range(r):
            k = draw(st.sampled_from(["Any", "Any", "Imply", "All", "AtLeast"]))
            x, y = L("x%03d" % j), L("y%03d" % j)
            rid = draw(st.sampled_from(["R%03d" % j, "R%03d" % j, None]))
            if k == "AtLeast":
                rules.append({"k": "AtLeast", "v": 1, "s": 1, "id": rid, "c": [x, y]})
            else:
                rules.append({"k": k, "id": rid, "c": [x, y]})
        node = {"k": "All", "id": draw(st.sampled_from(["A", None])), "c": rules}
    else:
        n = draw(st.integers(3, 8))
        ln = draw(st.sampled_from([40, 64, 65, 128, 200, 300]))
        stem = "component/with/a/long/path/name-" * (ln // 30 + 1)
        kids = [L((stem[:ln - 3] + "%03d" % i)) for i in range(n)]
        sub = {"k": "Any", "id": draw(st.sampled_from([None, stem[:ln - 3] + "grp"])), "c": kids[:2]}
        node = {"k": draw(st.sampled_from(["All", "Any", "AtLeast"])), "id": draw(st.sampled_from([None, stem[:ln]])), "c": [sub] + kids[2:]}
        if node["k"] == "AtLeast":
            node["v"], node["s"] = draw(st.integers(1, len(node["c"]))), 1
    if allow_const and draw(st.integers(0, 3)) == 0:
        from vf import oracle as _o
        leaves = sorted(_o.spec_leaves(node))
        for lid in leaves[::max(1, len(leaves) // 3)][:4]:
            node = with_fixed_leaf(node, lid, draw(st.integers(0, 1)))
    outer = draw(st.sampled_from(["none", "none", "none", "Not", "Imply"]))
    if outer == "Not":
        return {"k": "Not", "c": [node]}
    if outer == "Imply":
        return {"k": "Imply", "id": None, "c": [node, L("zq")]}
    return node


@st.composite
def scale_case(draw, n_points=(10, 16), **kw):
    """{"model": large spec, "points": drawn assignments}: all-zero, all-one, sparse, dense and mixed rows"""
    from vf import oracle
    spec = draw(scale_spec(**kw))
    lv = oracle.spec_leaves(spec)
    ids = sorted(lv)
    n = draw(st.integers(*n_points))
    pts = []
    nl = len(ids)
    for r in range(n):
        mode = r if r < 2 else draw(st.integers(2, 7))
        seed_bits = draw(st.integers(0, 2 ** 62))
        if mode >= 6:
            # very few leaves at their upper end: the last / the first / first two and last / last two / one drawn position
            # (in id order) - all other leaves at their lower end (mode 6) or, for mode 7, the complement of that pattern
            pat = draw(st.sampled_from([[nl - 1], [0], [0, 1, nl - 1], [nl - 2, nl - 1], [0, nl - 1], [draw(st.integers(0, nl - 1))],
                                        [0, 1, 2], [nl - 3, nl - 2, nl - 1], [nl // 2, nl - 1]]))
            pat = {p_ for p_ in pat if 0 <= p_ < nl}
            pts.append([(lv[i][1] if (j in pat) == (mode == 6) else lv[i][0]) for j, i in enumerate(ids)])
            continue
        row = []
        for j, i in enumerate(ids):
            lo, hi = lv[i]
            bit = (seed_bits >> (j % 62)) & 1
            bit2 = (seed_bits >> ((j * 7 + 3) % 62)) & 1
            if mode == 0:
                v = lo
            elif mode == 1:
                v = hi
            elif mode == 2:
                v = hi if (bit and bit2) else lo      # sparse
            elif mode == 3:
                v = lo if (bit and bit2) else hi      # dense
            elif mode == 4:
                v = hi if bit else lo
            else:
                v = lo + (seed_bits >> (j % 50)) % (hi - lo + 1)
            row.append(v)
        pts.append(row)
    return {"model": spec, "points": pts}


@st.composite
def big_configurator_spec(draw, min_top=0):
    """a configurator of catalogue size: 8-40 option groups (defaulted Xor / Any of 3-4 options; a few without default), some
    requirement rules between options of different groups, and 0-120 free top-level items. About 8 columns per group, so the
    polyhedron has 60-450 columns; ``min_top`` forces at least that many top-level children."""
    L = lambda i: {"k": "leaf", "id": i, "b": [0, 1]}
    ng = draw(st.sampled_from([8, 16, 31, 32, 33, 40]))
    groups = []
    for g in range(ng):
        no = 4 if (g % 3) else 3
        opts = [L("g%03d_%s" % (g, "abcd"[k])) for k in range(no)]
        kind = "cXor" if draw(st.integers(0, 4)) else "cAny"
        default = None if draw(st.integers(0, 7)) == 0 else [opts[draw(st.integers(0, no - 1))]["id"]]
        groups.append({"k": kind, "id": "G%03d" % g, "c": opts, "default": default})
    rules = []
    for j in range(draw(st.sampled_from([0, 2, 5, 12]))):
        g1, g2 = draw(st.integers(0, ng - 1)), draw(st.integers(0, ng - 1))
        if g1 != g2:
            rules.append({"k": "Imply", "id": "I%03d" % j, "c": [L("g%03d_a" % g1), L("g%03d_b" % g2)]})
    n_items = draw(st.sampled_from([0, 1, 5, 40, 96, 120]))
    need = max(0, min_top - (ng + len(rules)))
    n_items = max(n_items, need)
    items = [L("it%03d" % j) for j in range(n_items)]
    return {"k": "Stingy", "id": draw(st.sampled_from(["conf", "conf", None])), "c": items + groups + rules}


def wide_threshold_cases(ns=(63, 64, 65, 66, 100, 128, 129, 130, 257, 300), booleans_only=True):
    """ENUMERATED: every threshold connective over n boolean leaves for n around 64 / 128 / 256, judged on assignments of small
    weight at telling positions (first, second, last, the block boundaries 62..65 and 127..129, 255..257), on prefix
    assignments just below / at / above the threshold, on all-ones and all-but-one"""
    for n in ns:
        leaves = [{"k": "leaf", "id": "x%03d" % i, "b": [0, 1]} for i in range(n)]
        ids = [l["id"] for l in leaves]
        nodes = [{"k": "Xor", "id": "one", "c": leaves}, {"k": "XNor", "id": None, "c": leaves}, {"k": "Any", "id": "any", "c": leaves},
                 {"k": "All", "id": None, "c": leaves}, {"k": "AtMost", "v": 1, "id": "cap1", "c": leaves},
                 {"k": "AtMost", "v": n // 2, "id": None, "c": leaves}, {"k": "AtLeast", "v": 2, "s": 1, "id": "two", "c": leaves},
                 {"k": "AtLeast", "v": n - n // 8, "s": 1, "id": None, "c": leaves}]
        for node in nodes:
            k = {"Xor": 1, "XNor": 1, "Any": 1, "All": n, "AtMost": node.get("v", 1), "AtLeast": node.get("v", 1)}[node["k"]]
            sets = [set(), {0}, {n - 1}, {1}, {0, 1}, {0, n - 1}, {0, 1, n - 1}, {n - 2, n - 1}, {62, 63, 64}, {63, 64}, {64}, {0, 64, 128},
                    {127, 128}, {255, 256}, {0, 255, 256}, set(range(n)), set(range(n)) - {0}, set(range(n)) - {n - 1},
                    set(range(max(0, k - 1))), set(range(k)), set(range(min(n, k + 1))), set(range(n - k, n)), set(range(n // 8, n)), set(range(n // 8 + 1, n))]
            pts, seen = [], set()
            for s_ in sets:
                s_ = frozenset(i for i in s_ if 0 <= i < n)
                if s_ not in seen:
                    seen.add(s_)
                    pts.append([1 if i in s_ else 0 for i in range(n)])
            for wrap in (False, True):
                spec = {"k": "Not", "c": [node]} if wrap else node
                yield {"model": spec, "points": pts}


def cfg_small_shapes():
    """ENUMERATED configurator shapes: one configurator Any / Xor with 2-3 members (leaves and / or small compounds), every
    default variant (none, a leaf member, the first of several, an id that is not a member), placed at top level, as the
    consequence of a requirement rule, or nested in a plain Any - next to an unrelated item"""
    L = lambda i: {"k": "leaf", "id": i, "b": [0, 1]}
    comp1 = {"k": "All", "id": "B", "c": [L("a"), L("b")]}
    comp2 = {"k": "Any", "id": None, "c": [L("c"), L("d")]}
    N = lambda i, lo, hi: {"k": "leaf", "id": i, "b": [lo, hi]}
    member_sets = [[L("p"), L("q")], [L("p"), L("q"), L("r")], [L("a"), L("b"), L("c"), L("d")], [L("k1"), L("k2"), L("k3")],
                   [N("n", 0, 3), L("q")], [N("k", 1, 1), L("q"), L("r")], [N("m", -2, 3), L("q")], [comp1, L("c")], [L("c"), comp1], [comp1, comp2], [comp1, comp2, L("e")], [comp2, L("e")]]
    for kind in ("cAny", "cXor"):
        for ms in member_sets:
            leaf_ids = [m["id"] for m in ms if m["k"] == "leaf"]
            defaults = [None] + [[i] for i in leaf_ids[:2]] + ([[leaf_ids[-1]]] if len(leaf_ids) >= 3 else []) + \
                ([[leaf_ids[-1], leaf_ids[0]]] if len(leaf_ids) >= 2 else []) + [["zz"]]
            for dflt in defaults:
                for gid in ("X", None):
                    g = {"k": kind, "id": gid, "c": ms, "default": dflt}
                    for place in ("top", "consequence", "nested"):
                        if place == "top":
                            kids = [g, L("item")]
                        elif place == "consequence":
                            kids = [{"k": "Imply", "id": "R", "c": [L("item"), g]}]
                        else:
                            kids = [{"k": "Any", "id": "W", "c": [g, L("item")]}]
                        yield {"k": "Stingy", "id": "conf", "c": kids}
                    if ms is member_sets[0] or ms is member_sets[1] or ms is member_sets[7]:
                        # ... and below every OTHER connective (each class reads / writes its children by its own code)
                        for wrap in ("All", "AtLeast", "AtMost", "Xor", "XNor", "Not", "condition"):
                            if wrap == "Not":
                                w = {"k": "Not", "c": [g]}
                            elif wrap == "condition":
                                w = {"k": "Imply", "id": "R", "c": [g, L("item")]}
                            else:
                                w = {"k": wrap, "id": "W", "c": [g, L("item")]}
                                if wrap in ("AtLeast", "AtMost"):
                                    w["v"] = 1
                                    if wrap == "AtLeast":
                                        w["s"] = None
                            yield {"k": "Stingy", "id": "conf", "c": [w, L("other")]}


def rulebase_case(r, kinds=("Any",), falsify=(0, 1, 2)):
    """deterministic LARGE rule base: All over r rules R_j over the disjoint leaves (x_j, y_j); points: all leaves 1 with the
    leaves of k rules set to 0, for each k in ``falsify`` (rules taken from both ends and the middle)"""
    L = lambda i: {"k": "leaf", "id": i, "b": [0, 1]}
    rules = []
    for j in range(r):
        k = kinds[j % len(kinds)]
        n_ = {"k": k, "id": "R%04d" % j, "c": [L("x%04d" % j), L("y%04d" % j)]}
        if k == "AtLeast":
            n_["v"], n_["s"] = 1, 1
        rules.append(n_)
    spec = {"k": "All", "id": "A", "c": rules}
    ids = sorted(["x%04d" % j for j in range(r)] + ["y%04d" % j for j in range(r)])
    pts = []
    for k in falsify:
        k = min(k, r)
        chosen = set(range(k // 2)) | set(range(r - (k - k // 2), r))
        zero = {"x%04d" % j for j in chosen} | {"y%04d" % j for j in chosen}
        pts.append([0 if i in zero else 1 for i in ids])
    return {"model": spec, "points": pts}


# ------------------------------------------------------------------------------------------------ configurators
CFG_KINDS = ["cAny", "cAny", "cAny", "cXor", "cXor", "Any", "Xor", "All", "AtMost", "AtLeast", "XNor", "Imply", "Imply"]


@st.composite
def configurator_spec(draw, min_items=3, max_items=7, max_rules=4, explicit_p=60, allow_int=False):
    """{"k": "Stingy", "id": ..., "c": [rules]} over boolean items"""
    n_items = draw(st.integers(min_items, max_items))
    items = BOOL_IDS[:n_items]
    if draw(st.integers(0, 7)) == 0:
        # item names that only a normalisation would merge (surrounding blanks, case, a tab, another unicode composition)
        items = (["a", "a ", " a", "A", "b", "b\t", "\u00e5", "a\u030a"])[:n_items]
    counter = [0]

    def new_id():
        counter[0] += 1
        if draw(st.integers(0, 99)) >= explicit_p:
            return None
        return ("VARIANT%d" % counter[0]) if draw(st.integers(0, 11)) == 0 else ("R%d" % counter[0])

    sub_items = set(draw(st.lists(st.sampled_from(items), max_size=2))) if draw(st.integers(0, 4)) == 0 else set()

    def leaf(i):
        l = {"k": "leaf", "id": i, "b": [0, 1]}
        if i in sub_items:
            l["sub"] = True         # an instance of a user-defined subclass of puan.variable (consistently for this id)
        elif draw(st.integers(0, 2)) == 0:
            l["str"] = True
        return l

    def leaves(lo, hi):
        hi = min(hi, n_items)
        lo = min(lo, hi)
        ids = draw(st.lists(st.sampled_from(items), min_size=lo, max_size=hi, unique=True))
        return [leaf(i) for i in ids]

    made = []       # plain compounds with explicit ids built so far (candidates for re-use in later rules)

    def rule(depth, kinds=CFG_KINDS):
        r_ = _rule(depth, kinds)
        if r_["k"] in ("All", "Any", "AtMost") and r_.get("id") and all(c_["k"] == "leaf" for c_ in r_["c"]):
            made.append(r_)
        return r_

    def _rule(depth, kinds=CFG_KINDS):
        kind = draw(st.sampled_from(kinds))
        if kind in ("cAny", "cXor"):
            ch = leaves(2, 5)
            if depth > 0 and made and draw(st.integers(0, 5)) == 0:
                # exactly two alternatives: the default item and ONE compound that is also used by another rule
                ch = leaves(1, 1) + [draw(st.sampled_from(made))]
            elif depth > 0 and draw(st.integers(0, 2)) == 0:
                # incl. a defaulted group inside the (possibly non-default) alternatives of this one
                ch.append(rule(depth - 1, ["All", "Any", "AtMost", "Xor", "cAny", "cXor", "cAny"]))
            node = {"k": kind, "c": ch, "id": new_id()}
            r = draw(st.integers(0, 9))
            lids = [c["id"] for c in ch if c["k"] == "leaf"]
            if r <= 6 and lids:
                node["default"] = [draw(st.sampled_from(lids))]
                if len(lids) >= 2 and draw(st.integers(0, 5)) == 0:
                    # the interface is a list (only the first entry is in effect): several entries, in the given order
                    node["default"] = list(draw(st.permutations(lids)))[:draw(st.integers(2, min(3, len(lids))))]
            elif r == 7:
                node["default"] = [draw(st.sampled_from(items))]     # possibly not among the children
            else:
                node["default"] = None
            return node
        if kind == "Imply":
            cond = leaf(draw(st.sampled_from(items))) if draw(st.booleans()) else \
                {"k": draw(st.sampled_from(["All", "Any"])), "c": leaves(1, 3), "id": new_id()}
            r = draw(st.integers(0, 3))
            if r == 0:
                cons = leaf(draw(st.sampled_from(items)))
            elif made and draw(st.integers(0, 3)) == 0:
                cons = draw(st.sampled_from(made))          # the same package is required by another rule
            elif r == 1 or depth == 0:
                cons = {"k": draw(st.sampled_from(["All", "Any", "Xor"])), "c": leaves(1, 3), "id": new_id()}
            else:
                cons = rule(depth - 1, ["cAny", "cXor"])
            if cond["k"] == "leaf" and cons["k"] == "leaf" and cond["id"] == cons["id"]:
                cons = {"k": "Any", "c": leaves(2, 3), "id": new_id()}
            return {"k": "Imply", "c": [cond, cons], "id": new_id()}
        ch = leaves(1, 4)
        if depth > 0 and draw(st.integers(0, 3)) == 0:
            ch.append(rule(depth - 1, ["cAny", "cXor", "Any", "All", "AtMost"]))
        node = {"k": kind, "c": ch, "id": new_id()}
        if kind == "AtLeast":
            node["v"] = draw(st.integers(1, len(ch)))
            node["s"] = None   # an explicit sign changes the generated id (str(sign) is hashed), see DESIGN ledger
        elif kind == "AtMost":
            node["v"] = draw(st.integers(0, len(ch)))
        return node

    rules = [rule(1) for _ in range(draw(st.integers(1, max_rules)))]
    if draw(st.integers(0, 5)) == 0:
        rules.append(leaf(draw(st.sampled_from(items))))       # a bare item as top-level rule
    cid = draw(st.sampled_from(["main", "cfg", None]))
    return {"k": "Stingy", "id": cid, "c": rules}


@st.composite
def negation_focus_spec(draw, int_leaves=False, depth=2, outer_connective=True):
    """A negating connective applied to a threshold node with mixed atom/compound children - the inward-push branch of
    negate() - with every threshold between 'any' and 'all' equally likely."""
    pool = draw(leaf_pool(profile="small", max_bool=6, max_int=2 if int_leaves else 0, min_leaves=3))
    ctx = _Ctx(draw, pool, ("All", "Any", "AtLeast", "Not", "Imply", "XNor"), "small", False, 0, 50, None, positive_only=True)

    def threshold_node(d):
        n_atoms = draw(st.integers(0, 4))
        n_comp = draw(st.integers(1, 3)) if d > 0 else 0
        atoms = draw(st.lists(st.sampled_from(pool), min_size=min(n_atoms, len(pool)), max_size=min(n_atoms, len(pool)),
                              unique_by=lambda l: l["id"]))
        comps = []
        for _ in range(n_comp):
            if d > 1 and draw(st.integers(0, 2)) == 0:
                comps.append(threshold_node(d - 1))
            else:
                comps.append(_node(ctx, max(d - 1, 0)))
        ch = atoms + comps
        if not ch:
            ch = [draw(st.sampled_from(pool))]
        n = len(ch)
        kind = draw(st.sampled_from(["AtLeast", "AtLeast", "AtLeast", "All", "Any"]))
        node = {"k": kind, "c": ch, "id": ctx.new_id() if draw(st.booleans()) else None}
        if kind == "AtLeast":
            node["v"] = draw(st.integers(1, n))
            node["s"] = draw(st.sampled_from([1, None]))
        return node

    x = threshold_node(depth)
    if not outer_connective:
        return x
    outer = draw(st.sampled_from(["Not", "Not", "Imply", "XNor", "NotNot", "AllNot"]))
    other = draw(st.sampled_from(pool))
    if outer == "Not":
        return {"k": "Not", "c": [x]}
    if outer == "Imply":
        return {"k": "Imply", "id": ctx.new_id() if draw(st.booleans()) else None, "c": [x, other]}
    if outer == "XNor":
        return {"k": "XNor", "id": None, "c": [x, other]}
    if outer == "NotNot":
        return {"k": "Not", "c": [{"k": "Not", "c": [x]}]}
    return {"k": "All", "id": None, "c": [{"k": "Not", "c": [x]}, other]}


# ------------------------------------------------------------------------------------------------ exhaustive small shapes
def small_shapes(slice_i=0, n_slices=1, wrappers=True):
    """Finite family, enumerated completely: every single threshold node X over the leaves a (boolean) and t (integer,
    -2..2) - AtLeast with every value in -2..3 and every sign (+1, -1, defaulted), AtMost with every value in -2..2, All,
    Any; 1-2 children; explicit or generated id - alone and inside every connective (as Imply condition / consequence, under
    Not, XNor, Xor, All, Any, AtMost, AtLeast(+), and doubly negated)."""
    a = {"k": "leaf", "id": "a", "b": [0, 1]}
    b = {"k": "leaf", "id": "b", "b": [0, 1]}
    t = {"k": "leaf", "id": "t", "b": [-2, 2]}
    xs = []
    for ch in ([a], [t], [a, t]):
        for xid in ("X", None):
            for v in range(-2, 4):
                for s in (1, -1, None):
                    xs.append({"k": "AtLeast", "v": v, "s": s, "id": xid, "c": ch})
            for v in range(-2, 3):
                xs.append({"k": "AtMost", "v": v, "id": xid, "c": ch})
            xs.append({"k": "All", "id": xid, "c": ch})
            xs.append({"k": "Any", "id": xid, "c": ch})
    yield from _wrapped(xs, slice_i, n_slices, wrappers)


def _wrapped(xs, slice_i=0, n_slices=1, wrappers=True):
    a = {"k": "leaf", "id": "a", "b": [0, 1]}
    b = {"k": "leaf", "id": "b", "b": [0, 1]}
    i = 0
    for x in xs:
        forms = [x]
        if wrappers:
            forms += [
                {"k": "Imply", "id": "W", "c": [x, b]},
                {"k": "Imply", "id": None, "c": [b, x]},
                {"k": "Not", "c": [x]},
                {"k": "Not", "c": [{"k": "Not", "c": [x]}]},
                {"k": "XNor", "id": None, "c": [x, b]},
                {"k": "Xor", "id": "W", "c": [x, b]},
                {"k": "All", "id": None, "c": [x, b]},
                {"k": "Any", "id": "W", "c": [x, b]},
                {"k": "AtMost", "v": 1, "id": None, "c": [x, b]},
                {"k": "AtLeast", "v": 2, "s": 1, "id": "W", "c": [x, b]},
                {"k": "Not", "c": [{"k": "All", "id": "W", "c": [x, b]}]},
                {"k": "Imply", "id": None, "c": [{"k": "All", "id": None, "c": [x, b]}, a]},
            ]
        for f in forms:
            if i % n_slices == slice_i:
                yield f
            i += 1


def empty_shapes(slice_i=0, n_slices=1):
    """compound nodes WITHOUT sub-propositions (an empty group: All(), Any(variable='E'), AtLeast(v, []) - what a data driven
    caller gets from an empty rule list; the empty sum is 0, so All() holds and Any() does not), every value/sign, explicit or
    generated id, alone and inside every connective"""
    xs = []
    for xid in ("X", None):
        for v in (-1, 0, 1):
            for s in (1, -1, None):
                xs.append({"k": "AtLeast", "v": v, "s": s, "id": xid, "c": []})
        for v in (-1, 0, 1):
            xs.append({"k": "AtMost", "v": v, "id": xid, "c": []})
        for k in ("All", "Any", "Xor", "XNor"):
            xs.append({"k": k, "id": xid, "c": []})
    yield from _wrapped(xs, slice_i, n_slices, True)


def shared_depth_shapes(slice_i=0, n_slices=1):
    """ONE compound object held by two holders that sit on different levels (or on one level with the holder's id sorting before
    / after the shared node's id): All(group, Imply(c, Any(group, d))), All(group, Any(group, x, variable='either')), ...
    Enumerated: 6 holder patterns x shared group of 4 kinds x 3 ids x 2 holder ids."""
    a, b, c, d = ({"k": "leaf", "id": i, "b": [0, 1]} for i in "abcd")
    t = {"k": "leaf", "id": "t", "b": [-1, 2]}
    ref = {"k": "ref", "i": 0}
    i = 0
    for gk in ("Any", "All", "AtLeast", "AtMost"):
        for gid in ("group", None, "zz"):
            g = {"k": gk, "id": gid, "c": [a, b]}
            if gk == "AtLeast":
                g = {"k": gk, "id": gid, "v": 1, "s": 1, "c": [a, t]}
            elif gk == "AtMost":
                g["v"] = 1
            for hid in ("either", "zzz", None):
                roots = [
                    {"k": "All", "id": "top", "c": [ref, {"k": "Imply", "id": hid, "c": [c, {"k": "Any", "id": None, "c": [ref, d]}]}]},
                    {"k": "All", "id": None, "c": [ref, {"k": "Any", "id": hid, "c": [ref, c]}]},
                    {"k": "Any", "id": "top", "c": [ref, {"k": "All", "id": hid, "c": [{"k": "Any", "id": None, "c": [ref, d]}, c]}]},
                    {"k": "All", "id": None, "c": [{"k": "Imply", "id": hid, "c": [ref, c]}, ref]},
                    {"k": "Xor", "id": "top", "c": [ref, {"k": "All", "id": hid, "c": [ref, c]}]},
                    {"k": "AtLeast", "v": 2, "s": 1, "id": None, "c": [ref, {"k": "Any", "id": hid, "c": [{"k": "All", "id": None, "c": [ref, d]}, c]}]},
                ]
                for r in roots:
                    if i % n_slices == slice_i:
                        yield {"shared": [g], "root": r}
                    i += 1


def concat_shapes(slice_i=0, n_slices=1):
    """mixed atom/compound nodes over leaf names that concatenate into one another: a value-1 node with a compound child and
    the atoms (a, b) - whose negation groups the atoms into one helper +(a,b)>=1 - next to a mixed node holding the atom 'ab'
    (helper +(ab)>=1), and the (a, bc) / (ab, c) variant. Helpers made while a negation is pushed inwards then carry equal
    generated ids although they are different propositions."""
    L = lambda i: {"k": "leaf", "id": i, "b": [0, 1]}
    i = 0
    for atoms1, atoms2 in ((["a", "b"], ["ab"]), (["a", "bc"], ["ab", "c"]), (["ab", "c"], ["abc"]), (["a", "b", "c"], ["ab", "c"])):
        for k1 in ("Any", "AtLeast1"):
            for inner in ("All", "Any"):
                x = {"k": "Any" if k1 == "Any" else "AtLeast", "id": "A", "c": [{"k": inner, "id": "B", "c": [L("p"), L("q")]}] + [L(s) for s in atoms1]}
                if k1 != "Any":
                    x["v"], x["s"] = 1, 1
                y = {"k": "All", "id": "C", "c": [L("r"), L("s")]}
                for root_kind, v in (("AtLeast", 1), ("AtLeast", 2), ("AtLeast", 3), ("All", None), ("Any", None)):
                    for with_y in (True, False):
                        for z_in_sub in (False, True):
                            second = [L(s) for s in atoms2]
                            if z_in_sub:
                                # the atoms of the second group sit in a value-1 mixed node of their own
                                second = [{"k": "Any", "id": "D", "c": [{"k": "All", "id": "E", "c": [L("u"), L("w")]}] + second}]
                            ch = [x] + second + ([y] if with_y else [])
                            root = {"k": root_kind, "id": "M", "c": ch}
                            if root_kind == "AtLeast":
                                if v > len(ch):
                                    continue
                                root["v"], root["s"] = v, 1
                            if i % n_slices == slice_i:
                                yield root
                            i += 1


def with_fixed_leaf(spec, leaf_id, value):
    """deep copy of a spec in which every occurrence of the leaf gets constant bounds (value, value)"""
    import copy
    s = copy.deepcopy(spec)

    def rec(n):
        if n["k"] == "leaf":
            if n["id"] == leaf_id:
                n["b"] = [value, value]
                n.pop("str", None)
        else:
            for c in n.get("c", []):
                rec(c)
    rec(s)
    return s


def mixed_shapes(slice_i=0, n_slices=1):
    """Second exhaustive family: every threshold node with MIXED children - one or two leaves (boolean a, integer t in
    -2..2) plus one compound child Y (Any / All / AtMost(1) / Xor over the booleans b, c; explicit or generated id) -
    AtLeast with every value 0..3 and sign +1/-1/default, AtMost 0..2, All, Any; alone and under Not, as Imply
    condition, in XNor, under All, under AtMost."""
    a = {"k": "leaf", "id": "a", "b": [0, 1]}
    b = {"k": "leaf", "id": "b", "b": [0, 1]}
    c = {"k": "leaf", "id": "c", "b": [0, 1]}
    d = {"k": "leaf", "id": "d", "b": [0, 1]}
    t = {"k": "leaf", "id": "t", "b": [-2, 2]}
    ys = []
    for yid in ("Y", None):
        ys += [{"k": "Any", "id": yid, "c": [b, c]}, {"k": "All", "id": yid, "c": [b, c]},
               {"k": "AtMost", "v": 1, "id": yid, "c": [b, c]}, {"k": "Xor", "id": yid, "c": [b, c]}]
    i = 0
    for y in ys:
        for leaves in ([a], [t], [a, t], [a, b]):
            ch = leaves + [y]
            xs = []
            for xid in ("X", None):
                for v in range(0, 4):
                    for s in (1, -1, None):
                        xs.append({"k": "AtLeast", "v": v, "s": s, "id": xid, "c": ch})
                for v in range(0, 3):
                    xs.append({"k": "AtMost", "v": v, "id": xid, "c": ch})
                xs.append({"k": "All", "id": xid, "c": ch})
                xs.append({"k": "Any", "id": xid, "c": ch})
            for x in xs:
                for f in (x, {"k": "Not", "c": [x]}, {"k": "Imply", "id": None, "c": [x, d]}, {"k": "XNor", "id": None, "c": [x, d]},
                          {"k": "All", "id": "W", "c": [x, d]}, {"k": "AtMost", "v": 1, "id": None, "c": [x, d]}):
                    if i % n_slices == slice_i:
                        yield f
                    i += 1


@st.composite
def class_twin_spec(draw, by_ref=False):
    """Models that contain the SAME sub-proposition built through two different classes (Any(S) next to Xor(S) whose inner
    at-least-one has the same generated id; All(S) next to AtLeast(|S|, S); a named node used directly and again through a
    double negation), under a small root, with leaf ids that sort before or after the generated ids."""
    names = draw(st.sampled_from([["a", "b", "c", "d"], ["A", "B", "c", "d"], ["A", "B", "C", "D"], ["apple", "Pear", "basket", "zz"],
                                  ["~a", "~b", "0c", "0d"]]))
    L = [{"k": "leaf", "id": i, "b": [0, 1]} for i in names]
    S_ = L[:draw(st.integers(1, 3))]
    extra = L[3]
    kind = draw(st.integers(0, 3))
    if kind == 0:
        t1 = {"k": "Any", "id": None, "c": S_}
        t2 = {"k": draw(st.sampled_from(["Xor", "XNor"])), "id": draw(st.sampled_from([None, "X1"])), "c": S_}
    elif kind == 1:
        t1 = {"k": "All", "id": None, "c": S_}
        t2 = {"k": "AtLeast", "v": len(S_), "s": None, "id": None, "c": S_}
    elif kind == 2:
        named = {"k": draw(st.sampled_from(["All", "Any"])), "id": "B1", "c": S_}
        t1 = named
        t2 = {"k": "Imply", "id": draw(st.sampled_from([None, "I1"])), "c": [{"k": "Not", "c": [named]}, extra]}
    else:
        t1 = {"k": "Any", "id": None, "c": S_}
        t2 = {"k": "AtLeast", "v": 1, "s": None, "id": None, "c": S_}
    wrap2 = draw(st.sampled_from(["plain", "imply", "any"]))
    if wrap2 == "imply":
        t2 = {"k": "Imply", "id": None, "c": [extra, t2]}
    elif wrap2 == "any":
        t2 = {"k": "Any", "id": "W2", "c": [t2, extra]}
    root_kind = draw(st.sampled_from(["All", "Any", "AtLeast", "AtMost"]))
    ch = [t1, t2] if draw(st.booleans()) else [t2, t1]
    if draw(st.booleans()):
        ch.append(extra)
    root = {"k": root_kind, "id": draw(st.sampled_from(["model", None, "Root"])), "c": ch}
    if root_kind == "AtLeast":
        root["v"] = draw(st.integers(1, len(ch)))
        root["s"] = None
    elif root_kind == "AtMost":
        root["v"] = draw(st.integers(0, len(ch)))
    return root


@st.composite
def by_reference_spec(draw):
    """the documented by-reference idiom: a rule is named, and another rule refers to it by a plain variable with that id"""
    leaves = [{"k": "leaf", "id": i, "b": [0, 1]} for i in draw(st.sampled_from([["a", "b", "c", "d", "e"], ["sunroof", "panorama", "tinted", "x", "y"]]))]
    rid = draw(st.sampled_from(["roof", "R", "zrule", "Arule"]))
    rule = {"k": draw(st.sampled_from(["Any", "All", "Xor", "AtMost"])), "id": rid, "c": leaves[:draw(st.integers(1, 3))]}
    if rule["k"] == "AtMost":
        rule["v"] = 1
    ref = {"k": "leaf", "id": rid, "b": [0, 1]}
    user = draw(st.sampled_from(["Imply", "Any", "All", "AtLeast"]))
    if user == "Imply":
        other = {"k": "Imply", "id": draw(st.sampled_from([None, "I"])), "c": [ref, leaves[3]] if draw(st.booleans()) else [leaves[3], ref]}
    elif user == "AtLeast":
        other = {"k": "AtLeast", "v": 1, "s": None, "id": None, "c": [ref, leaves[4]]}
    else:
        other = {"k": user, "id": draw(st.sampled_from([None, "U"])), "c": [ref, leaves[3], leaves[4]][:draw(st.integers(2, 3))]}
    ch = [rule, other] if draw(st.booleans()) else [other, rule]
    return {"k": draw(st.sampled_from(["All", "Stingy"])), "id": "main", "c": ch}


def bounding_shapes(slice_i=0, n_slices=1):
    """Finite family: a conjunction-like node (All / AtLeast(n of n)) over single-variable bound propositions on an integer
    variable n (AtLeast(k1,[n]) and/or AtMost(k2,[n])) next to an integer sibling q that can exceed 1 and/or a boolean."""
    i = 0
    for nb in ([-32768, 32767], [-5, 12], [0, 9]):
        n = {"k": "leaf", "id": "n", "b": nb}
        for qb in ([0, 3], [0, 1], [-1, 2]):
            q = {"k": "leaf", "id": "q", "b": qb}
            for k1 in (2, -1):
                for k2 in (9, 3):
                    lo = {"k": "AtLeast", "v": k1, "s": 1, "id": None, "c": [n]}
                    hi = {"k": "AtMost", "v": k2, "id": None, "c": [n]}
                    for ch in ([lo, hi, q], [lo, q], [hi, q], [lo, hi], [{"k": "Xor", "id": None, "c": [n]}, q]):
                        for root in ({"k": "All", "id": "M", "c": ch}, {"k": "AtLeast", "v": len(ch), "s": None, "id": None, "c": ch},
                                     {"k": "Any", "id": None, "c": [{"k": "All", "id": "M", "c": ch}, {"k": "leaf", "id": "z", "b": [0, 1]}]}):
                            if i % n_slices == slice_i:
                                yield root
                            i += 1


@st.composite
def wide_spec(draw, allow_const=False):
    """long option lists: one threshold node with 8-14 direct children (mostly boolean leaves, 1-2 integer leaves, possibly
    1-2 small compound children), threshold anywhere between 0 and beyond the number of children, either sign; alone or
    under one connective"""
    nb = draw(st.sampled_from([7, 8, 9, 10, 10, 11, 11, 12, 12, 13]))
    kids = [{"k": "leaf", "id": "o%02d" % i, "b": [0, 1]} for i in range(nb)]
    for j in range(draw(st.sampled_from([0, 1, 1, 1, 2, 2]))):
        b = draw(st.sampled_from([[0, 5], [-2, 3], [0, 2], [-3, 0], [1, 4]]))
        if allow_const and draw(st.integers(0, 5)) == 0:
            b = [b[0], b[0]]
        # integer children early, in the middle or late in id order
        kids.append({"k": "leaf", "id": draw(st.sampled_from(["bonus%d", "a_qty%d", "o05x%d", "zz%d"])) % j, "b": b})
    for j in range(draw(st.integers(0, 2))):
        sub = draw(st.lists(st.sampled_from(kids[:nb]), min_size=1, max_size=3, unique_by=lambda l: l["id"]))
        kids.append({"k": draw(st.sampled_from(["Any", "All", "AtMost"])), "id": draw(st.sampled_from([None, "G%d" % j, "o03g%d" % j])), "c": sub, "v": 1})
    for k_ in kids:
        if k_["k"] != "AtMost":
            k_.pop("v", None)
    n = len(kids)
    kind = draw(st.sampled_from(["AtLeast", "AtLeast", "AtMost", "All", "Any"]))
    node = {"k": kind, "id": draw(st.sampled_from(["score", None])), "c": kids}
    if kind == "AtLeast":
        node["v"] = draw(st.one_of(st.integers(0, n + 5), st.sampled_from([n, n - 1, n + 1, 1, 2])))
        node["s"] = draw(st.sampled_from([1, None, -1]))
        if node["s"] == -1:
            node["v"] = -draw(st.integers(0, n))
    elif kind == "AtMost":
        node["v"] = draw(st.integers(0, n + 2))
    outer = draw(st.sampled_from(["none", "none", "Not", "Imply", "All"]))
    z = {"k": "leaf", "id": "z", "b": [0, 1]}
    if outer == "Not":
        return {"k": "Not", "c": [node]}
    if outer == "Imply":
        return {"k": "Imply", "id": None, "c": [node, z]}
    if outer == "All":
        return {"k": "All", "id": "W", "c": [node, z]}
    return node


@st.composite
def wide_case(draw, allow_const=False, n_points=(24, 40)):
    """{"model": wide spec, "points": drawn leaf assignments} - the boxes are far too large to enumerate"""
    from vf import oracle
    spec = draw(wide_spec(allow_const=allow_const))
    lv = oracle.spec_leaves(spec)
    ids = sorted(lv)
    n = draw(st.integers(*n_points))
    # mostly-ones / mostly-zeros / mixed rows so that sums land near every threshold
    pts = []
    for _ in range(n):
        dens = draw(st.sampled_from([0, 1, 1, 2, 3]))
        row = []
        for i in ids:
            lo, hi = lv[i]
            if (lo, hi) == (0, 1):
                row.append(draw(st.sampled_from([[0], [0, 0, 1], [0, 1], [1, 1, 0], [1]][dens + (1 if dens < 4 else 0) - 1 if dens else 0])))
            else:
                row.append(draw(st.sampled_from([lo, hi, hi, 0 if lo <= 0 <= hi else lo, draw(st.integers(lo, hi))])))
        pts.append(row)
    return {"model": spec, "points": pts}


def bigm32_cases():
    """ENUMERATED: every variable bound fits into 32 bits, but the big-M term / right hand side of a sub-proposition's row
    (a sum of bounds plus the value) does not; points at the corners, around the threshold and around zero"""
    L = lambda i: {"k": "leaf", "id": i, "b": [0, 1]}
    I = lambda i, lo, hi: {"k": "leaf", "id": i, "b": [lo, hi]}
    big = 2 ** 31 - 1
    subs = [
        ({"k": "AtLeast", "id": "B", "v": 1, "s": 1, "c": [I("x", -2 ** 31, big)]}, {"x": [-2 ** 31, -1, 0, 1, 2, big]}),
        ({"k": "AtLeast", "id": "B", "v": 5, "s": 1, "c": [I("x", -2_000_000_000, 2_000_000_000), I("y", -2_000_000_000, 2_000_000_000)]},
         {"x": [-2_000_000_000, 0, 3, 2_000_000_000], "y": [-2_000_000_000, 0, 2, 2_000_000_000]}),
        ({"k": "AtMost", "id": "B", "v": 7, "c": [I("x", 0, big), I("y", 0, big)]}, {"x": [0, 3, 7, 8, big], "y": [0, 4, big]}),
        ({"k": "AtLeast", "id": "B", "v": 3_000_000_000, "s": 1, "c": [I("x", 0, 2_000_000_000), I("y", 0, 2_000_000_000)]},
         {"x": [0, 1_000_000_000, 1_500_000_000, 2_000_000_000], "y": [0, 1_500_000_000, 1_999_999_999, 2_000_000_000]}),
        ({"k": "AtLeast", "id": "B", "v": -3_000_000_000, "s": -1, "c": [I("x", 0, 2_000_000_000), I("y", 0, 2_000_000_000)]},
         {"x": [0, 1_000_000_000, 1_500_000_000, 2_000_000_000], "y": [0, 1_500_000_000, 1_500_000_001, 2_000_000_000]}),
    ]
    import itertools
    for sub, vals in subs:
        for top in ("All", "Any", "Imply"):
            if top == "Imply":
                spec = {"k": "Imply", "id": "A", "c": [L("z"), sub]}
            else:
                spec = {"k": top, "id": "A", "c": [sub, L("z")]}
            ids = sorted(list(vals) + ["z"])
            grid = dict(vals, z=[0, 1])
            pts = [list(p) for p in itertools.product(*[grid[i] for i in ids])]
            yield {"model": spec, "points": pts}
