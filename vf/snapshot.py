"""Deep structural snapshots of puan objects (JSON-able), used where the property itself demands structural identity
(C09 state oracle, C17, C18)."""


def prop(x, _depth=0):
    """generic attribute walk: class name + every instance attribute, recursively"""
    import numpy as np
    import puan
    if isinstance(x, puan.Bounds):
        # the number types are part of the state: assume() leaves numpy integers, an interpretation leaves Python ints,
        # and e.g. JSON serialisation tells them apart
        return ["Bounds", int(x.lower), int(x.upper), type(x.lower).__name__ + "/" + type(x.upper).__name__]
    if isinstance(x, (bool, int, str, type(None))):
        return x
    if isinstance(x, (np.integer,)):
        return int(x)
    if isinstance(x, float):
        return x
    if isinstance(x, (list, tuple)):
        return [prop(i, _depth + 1) for i in x]
    if isinstance(x, dict):
        return {str(k): prop(v, _depth + 1) for k, v in sorted(x.items(), key=lambda kv: str(kv[0]))}
    if isinstance(x, np.ndarray):
        return array(x)
    if hasattr(x, "__dict__"):
        d = {"__class__": type(x).__module__ + "." + type(x).__name__}
        for k, v in sorted(vars(x).items()):
            if k.startswith("_"):
                continue        # private attributes (e.g. a benign memo) are not part of the observable structure
            d[k] = prop(v, _depth + 1)
        return d
    return repr(x)


def array(p):
    """ndarray (possibly variable_ndarray / ge_polyhedron(_config)) -> JSON-able snapshot"""
    import numpy as np
    d = {"__class__": type(p).__name__, "dtype": str(p.dtype), "shape": list(p.shape), "data": np.asarray(p).tolist()}
    for attr in ("variables", "index"):
        v = getattr(p, attr, None)
        if v is not None:
            d[attr] = [[type(i).__name__, i.id, [int(i.bounds.lower), int(i.bounds.upper)]] if hasattr(i, "bounds") else repr(i)
                       for i in np.asarray(v).tolist()]
    dpv = getattr(p, "default_prio_vector", None)
    if dpv is not None:
        d["default_prio_vector"] = np.asarray(dpv).tolist()
    return d
