"""Solver callables handed to puan's solve()/select() by the checks.

  marker(log)  - answers every objective with the vector (100, 101, ...) so that any column permutation / shift
                 between polyhedron columns, objective entries and reported ids becomes visible; records its inputs.
  exact(log)   - brute-force optimum over the integer box of the polyhedron's A-columns (deterministic tie-break:
                 lexicographically smallest optimal point); records its inputs. Returns (None, None, 1) when infeasible
                 or when the box is larger than ``guard``.
  none_solver  - returns (None, None, 1) for every objective
  raising      - raises RuntimeError
"""
import itertools


def _rows(poly):
    import numpy as np
    arr = np.asarray(poly)
    return [(int(r[0]), [int(a) for a in r[1:]]) for r in arr.tolist()]


def enumerate_feasible(poly, guard=70000):
    """all in-bounds integer points of the polyhedron (A-columns), or None when the box is too large"""
    from vf import oracle
    cols = list(poly.variables[1:])
    bounds = [(int(c.bounds.lower), int(c.bounds.upper)) for c in cols]
    if oracle.box_size(bounds) > guard:
        return None
    pts = list(itertools.product(*[range(lo, hi + 1) for lo, hi in bounds]))
    mask = oracle.feasible_mask(_rows(poly), pts) if len(cols) else [all(0 >= b for b, _ in _rows(poly))]
    return [p for p, ok in zip(pts, mask) if ok]


def objective_value(obj, x):
    return sum(int(o) * int(v) for o, v in zip(obj, x))


def marker(log):
    import numpy as np

    def solver(poly, objectives):
        objs = [np.array(o).tolist() for o in objectives]
        log.append({"poly": poly, "objectives": objs})
        n = np.asarray(poly).shape[1] - 1
        return [(np.array([100 + j for j in range(n)]), 7, 5) for _ in objs]
    return solver


def exact(log, guard=70000):
    import numpy as np

    def solver(poly, objectives):
        objs = [np.array(o).tolist() for o in objectives]
        feas = enumerate_feasible(poly, guard)
        log.append({"poly": poly, "objectives": objs, "feasible": feas})
        out = []
        for o in objs:
            if not feas:
                out.append((None, None, 1))
                continue
            best = None
            bv = None
            for p in feas:
                v = objective_value(o, p)
                if bv is None or v > bv:
                    bv, best = v, p
            out.append((np.array(best), bv, 5))
        return out
    return solver


def none_solver(poly, objectives):
    return [(None, None, 1) for _ in objectives]


def raising(poly, objectives):
    raise RuntimeError("solver exploded")
