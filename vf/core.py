"""Core of the framework: Violation, evidence collector, Part description, Hypothesis driver.

A property module (vf/props/cXX.py) exposes

    PROPERTY = "C01"
    RULE     = "<how cases are generated and what makes one non-trivial>"
    ASSUMPTIONS = [...]
    def parts(tier) -> list[Part]

A Part is one generated check: a Hypothesis strategy that yields JSON-able *cases* and a
``check(case, ev)`` function that raises :class:`Violation` when the oracle disagrees with puan.
"""
import hashlib
import json
import os
import sys
import time
import traceback


class Violation(Exception):
    """The property does not hold on this case."""

    def __init__(self, detail):
        super().__init__(detail)
        self.detail = detail


class Part:
    def __init__(self, name, strategy=None, check=None, quick=(4, 100), thorough=(16, 500),
                 enumerate_cases=None, machine=None, tolerate=None, time_quick=45.0, time_thorough=600.0, fuzz=None):
        """
        name            : part name (unique within the property)
        strategy        : callable(tier) -> hypothesis strategy of JSON-able cases
        check           : callable(case, ev) ; raises Violation
        quick/thorough  : (number of shards, examples per shard)
        enumerate_cases : optional callable(tier) -> iterable of cases (exhaustive sub-domain); run in one shard
        machine         : optional callable(tier, ev, sink) -> RuleBasedStateMachine class (histories)
        tolerate        : optional callable(case, detail) -> key of an *open* known finding or None
        time_*          : soft time budget per shard in seconds (exceeded -> remaining cases skipped, never a violation)
        """
        self.name = name
        self.strategy = strategy
        self.check = check
        self.quick = quick
        self.thorough = thorough
        self.enumerate_cases = enumerate_cases
        self.machine = machine
        self.tolerate = tolerate
        self.time_quick = time_quick
        self.time_thorough = time_thorough
        self.fuzz = fuzz            # (campaigns, executions per campaign): coverage-guided atheris campaigns, thorough tier only

    def budget(self, tier):
        return self.quick if tier == "quick" else self.thorough

    def time_budget(self, tier):
        return self.time_quick if tier == "quick" else self.time_thorough


def canon(case):
    return json.dumps(case, sort_keys=True, separators=(",", ":"), default=str)


def digest(case):
    return hashlib.sha1(canon(case).encode()).hexdigest()[:16]


class Ev:
    """Per-shard evidence: counters, class histogram, digests of non-trivial cases, samples."""

    MAX_SAMPLES = 3

    def __init__(self):
        self.evaluations = 0
        self.nontrivial = set()
        self.classes = {}
        self.counters = {}
        self.samples = []
        self.frozen = False

    def case(self, case, nontrivial, classes=()):
        if self.frozen:
            return
        self.evaluations += 1
        for c in classes:
            self.classes[c] = self.classes.get(c, 0) + 1
        if nontrivial:
            d = digest(case)
            if d not in self.nontrivial:
                self.nontrivial.add(d)
                if len(self.samples) < self.MAX_SAMPLES:
                    self.samples.append(case)

    def count(self, name, n=1):
        if self.frozen:
            return
        self.counters[name] = self.counters.get(name, 0) + n

    def dump(self):
        return {
            "evaluations": self.evaluations,
            "nontrivial": sorted(self.nontrivial),
            "classes": self.classes,
            "counters": self.counters,
            "samples": self.samples,
        }


def repo_path():
    return os.path.realpath(os.environ.get("VF_REPO_PATH", "/repo"))


def from_puan(exc):
    """True when the exception was raised while executing code of the library under test."""
    root = os.path.join(repo_path(), "puan") + os.sep
    tb = exc.__traceback__
    while tb is not None:
        fn = os.path.realpath(tb.tb_frame.f_code.co_filename)
        if fn.startswith(root):
            return True
        tb = tb.tb_next
    return False


def short_tb(exc, limit=6):
    lines = traceback.format_exception(type(exc), exc, exc.__traceback__)
    return "".join(lines[-limit:])


def call(fn, *a, what="call", **kw):
    """Run a library call that the property requires to succeed on this (valid) input.
    An exception raised from inside puan becomes a Violation; anything else is a harness error."""
    try:
        return fn(*a, **kw)
    except Violation:
        raise
    except BaseException as e:  # noqa  (pyo3's PanicException derives from BaseException)
        if isinstance(e, (KeyboardInterrupt, SystemExit, GeneratorExit)):
            raise
        if from_puan(e):
            raise Violation(f"{what} raised {type(e).__name__}: {str(e)[:300]}")
        raise


class Budget:
    def __init__(self, seconds):
        self.t_end = time.monotonic() + seconds

    def over(self):
        return time.monotonic() > self.t_end


def run_fuzz_campaign(prop, part_name, tier, seed_value, runs, timeout):
    """atheris campaign in its own process (libFuzzer never returns); result comes back through a JSON file"""
    import subprocess
    import tempfile
    import shutil
    d = tempfile.mkdtemp(prefix="vffuzz-")
    outfile = os.path.join(d, "out.json")
    try:
        try:
            subprocess.run([sys.executable, "-m", "vf.fuzz", prop, part_name, tier, str(seed_value), str(runs), outfile],
                           stdout=subprocess.DEVNULL, stderr=subprocess.DEVNULL, timeout=timeout)
        except subprocess.TimeoutExpired:
            pass
        if os.path.exists(outfile):
            with open(outfile) as f:
                return json.load(f)
        return {"part": part_name + "@atheris", "seed": seed_value, "violation": None, "tolerated": [], "wall_s": 0.0,
                "error": None, "ev": Ev().dump(), "note": "atheris campaign produced no output (not available?)"}
    finally:
        shutil.rmtree(d, ignore_errors=True)


def run_shard(prop, part_name, tier, seed_value, n_examples, enum=False):
    """Executed in a worker process. Returns a JSON-able dict."""
    import importlib
    t0 = time.monotonic()
    if enum == "fuzz":
        return run_fuzz_campaign(prop, part_name, tier, seed_value, n_examples, 1500)
    if not os.environ.get("VF_KEEP_STDERR"):
        # the compiled extension prints panic messages for out-of-domain calls straight to fd 2; errors of this
        # worker are reported through the returned dict instead
        try:
            os.dup2(os.open(os.devnull, os.O_WRONLY), 2)
        except OSError:
            pass
    out = {"part": part_name, "seed": seed_value, "violation": None, "error": None, "tolerated": []}
    ev = Ev()
    try:
        mod = importlib.import_module(f"vf.props.{prop.lower()}")
        part = next(p for p in mod.parts(tier) if p.name == part_name)
        budget = Budget(part.time_budget(tier))
        if enum:
            _run_enum(part, tier, ev, out, budget)
        elif part.machine is not None:
            _run_machine(part, tier, seed_value, n_examples, ev, out, budget)
        else:
            _run_hyp(part, tier, seed_value, n_examples, ev, out, budget)
    except BaseException as e:  # harness error
        out["error"] = f"{type(e).__name__}: {e}\n{short_tb(e, 12)}"
    out["ev"] = ev.dump()
    out["wall_s"] = time.monotonic() - t0
    return out


def _guarded_check(part, case, ev, out):
    """Returns normally if the case holds or is attributed to an open known finding."""
    try:
        part.check(case, ev)
    except Violation as v:
        key = part.tolerate(case, v.detail) if part.tolerate else None
        if key is not None:
            ev.count("excluded_known")
            if key not in out["tolerated"]:
                out["tolerated"].append(key)
            return
        raise
    except BaseException as e:  # noqa  (pyo3's PanicException derives from BaseException)
        if isinstance(e, (KeyboardInterrupt, SystemExit, GeneratorExit)):
            raise
        if from_puan(e):
            raise Violation(f"unexpected exception from puan: {type(e).__name__}: {str(e)[:300]}\n{short_tb(e)}")
        raise


def _run_enum(part, tier, ev, out, budget):
    n = 0
    for case in part.enumerate_cases(tier):
        if budget.over():
            ev.count("skipped_time_budget")
            out["exhaustive"] = False
            break
        n += 1
        try:
            _guarded_check(part, case, ev, out)
        except Violation as v:
            out["violation"] = {"case": case, "detail": v.detail}
            return
    else:
        out["exhaustive"] = True


def _settings(n_examples, tier, stateful_steps=None):
    from hypothesis import settings, HealthCheck, Phase
    kw = dict(max_examples=n_examples, database=None, deadline=None, derandomize=False,
              report_multiple_bugs=False, suppress_health_check=list(HealthCheck),
              phases=[Phase.generate, Phase.shrink], print_blob=False)
    if stateful_steps:
        kw["stateful_step_count"] = stateful_steps
    return settings(**kw)


def _run_hyp(part, tier, seed_value, n_examples, ev, out, budget):
    from hypothesis import given, seed
    last = {}

    @seed(seed_value)
    @_settings(n_examples, tier)
    @given(part.strategy(tier))
    def test(case):
        if budget.over() and not last:
            ev.count("skipped_time_budget")
            return
        try:
            _guarded_check(part, case, ev, out)
        except Violation as v:
            ev.frozen = True
            last["case"] = case
            last["detail"] = v.detail
            raise

    try:
        test()
    except Violation:
        out["violation"] = dict(last)
    except Exception as e:  # noqa
        if last:
            # hypothesis wrapped/flaky etc: still report the last minimal failing case
            out["violation"] = dict(last)
            out["violation"]["detail"] += f"\n(note: hypothesis raised {type(e).__name__} while shrinking)"
        else:
            raise


def _run_machine(part, tier, seed_value, n_examples, ev, out, budget):
    """Histories: Hypothesis generates (no shrink phase - re-executing whole histories is slow and hits Hypothesis's
    shrink cap); the failing history is then minimised by the property module's own step-wise delta debugging."""
    from hypothesis import seed, settings, HealthCheck, Phase
    from hypothesis.stateful import run_state_machine_as_test
    sink = {}
    cls = part.machine(tier, ev, sink, budget)
    steps = getattr(cls, "STEPS", 20)
    st = settings(max_examples=n_examples, database=None, deadline=None, derandomize=False, report_multiple_bugs=False,
                  suppress_health_check=list(HealthCheck), phases=[Phase.generate], print_blob=False,
                  stateful_step_count=steps)
    detail = None
    try:
        run_state_machine_as_test(seed(seed_value)(cls), settings=st)
    except Violation as v:
        detail = v.detail
    except Exception as e:  # noqa
        if sink.get("violation"):
            detail = sink["violation"]
        else:
            raise
    if detail is not None:
        ev.frozen = True
        case = sink.get("failing_case") or sink.get("history")
        minimise = getattr(cls, "minimise", None)
        if minimise is not None and case is not None:
            try:
                case, detail = minimise(case, detail)
            except Exception:
                pass
        out["violation"] = {"case": case, "detail": detail}
