import warnings; warnings.filterwarnings("ignore")
import sys, time, itertools, json, hashlib
import puan, puan.logic.plog as pg, numpy as np
import hypothesis
from hypothesis import given, settings, seed, HealthCheck, strategies as st
print(hypothesis.__version__)
LEAVES=[("leaf",c,0,1) for c in "abcd"]
@st.composite
def leaf(draw):
    k=draw(st.integers(0,9))
    if k<6: return ("leaf",draw(st.sampled_from("abcd")),0,1)
    lo=draw(st.integers(-4,3)); w=draw(st.integers(1,4))
    return ("leaf","i"+draw(st.sampled_from("xyz")),lo,lo+w)
@st.composite
def node(draw, depth, counter):
    kind=draw(st.sampled_from(["AtLeast","AtMost","All","Any","Xor","XNor","Imply","Not"]))
    def child():
        if depth<=0 or draw(st.integers(0,9))<5: return draw(leaf())
        return draw(node(depth-1,counter))
    counter[0]+=1
    nid = ("N%d"%counter[0]) if draw(st.booleans()) else None
    if kind=="Not": return ("Not",child())
    if kind=="Imply": return ("Imply",nid,child(),child())
    n=draw(st.integers(1,3)); ch=[]; seen=set()
    for _ in range(n):
        c=child()
        key=c[1] if c[0]=="leaf" else json.dumps(c)
        if key in seen: continue
        seen.add(key); ch.append(c)
    if kind=="AtLeast": return ("AtLeast",nid,draw(st.integers(-3,4)),draw(st.sampled_from([1,-1])),ch)
    if kind=="AtMost": return ("AtMost",nid,draw(st.integers(-2,3)),ch)
    return (kind,nid,ch)
def build(s):
    k=s[0]
    if k=="leaf": return puan.variable(s[1],(s[2],s[3]))
    if k=="Not": return pg.Not(build(s[1]))
    if k=="Imply": return pg.Imply(build(s[2]),build(s[3]),variable=s[1])
    if k=="AtLeast": return pg.AtLeast(s[2],[build(c) for c in s[4]],variable=s[1],sign=s[3])
    if k=="AtMost": return pg.AtMost(s[2],[build(c) for c in s[3]],variable=s[1])
    return getattr(pg,k)(*[build(c) for c in s[2]],variable=s[1])
stats=dict(n=0,valid=0,pts=0,distinct=set(),leafbounds_conflict=0)
def ref(q,env):
    if isinstance(q,puan.variable): return env[q.id]
    return 1 if q.sign*sum(ref(c,env) for c in q.propositions)>=q.value else 0
@seed(1)
@settings(max_examples=int(sys.argv[1]) if len(sys.argv)>1 else 500,deadline=None,database=None,suppress_health_check=list(HealthCheck))
@given(st.data())
def t(data):
    s=data.draw(node(2,[0]))
    stats['n']+=1
    m=build(s)
    if isinstance(m,puan.variable) or m.errors(): return
    stats['valid']+=1
    stats['distinct'].add(hashlib.sha1(json.dumps(s).encode()).hexdigest())
    L=[p for p in m.flatten() if type(p)==puan.variable]
    sp=1
    for l in L: sp*=l.bounds.upper-l.bounds.lower+1
    if sp>2000: return
    P=m.to_ge_polyhedron(True)
    A=np.asarray(P.A).astype(object); b=np.asarray(P.b).astype(object); cols=[v.id for v in P.A.variables]
    for vals in itertools.product(*[range(l.bounds.lower,l.bounds.upper+1) for l in L]):
        env={l.id:v for l,v in zip(L,vals)}
        t_={q.id:ref(q,env) for q in m.flatten() if not isinstance(q,puan.variable)}
        full={**env,**t_}
        x=np.array([full[c] for c in cols],dtype=object)
        stats['pts']+=1
        assert bool((A.dot(x)>=b).all())==(t_[m.id]==1)
t0=time.time(); t(); dt=time.time()-t0
print({k:(len(v) if isinstance(v,set) else v) for k,v in stats.items()}, "%.1fs"%dt)
