import warnings; warnings.filterwarnings("ignore")
import sys
sys.path.insert(0,'/tmp/scratch/orig_tests')
import puan, puan.logic.plog as pg
from hypothesis import given, settings, seed, assume, HealthCheck
import importlib.util
spec=importlib.util.spec_from_file_location("tp","/repo/tests/test_puan.py"); tp=importlib.util.module_from_spec(spec); spec.loader.exec_module(tp)
found=[]
@seed(5)
@settings(max_examples=3000,deadline=None,database=None,suppress_health_check=list(HealthCheck))
@given(tp.propositions_strategy())
def t(props):
    model=pg.All(*props)
    assume(len(model.errors())==0)
    assumed=model.assume({}); reduced=model.reduce()
    if isinstance(reduced,puan.variable):
        ok = assumed.is_contradiction or assumed.is_tautology
    else:
        ok = sum(map(lambda x: x.bounds.lower!=x.bounds.upper, assumed.flatten())) >= len(reduced.flatten())
    if not ok:
        found.append(props); raise AssertionError("x")
try: t()
except AssertionError: pass
except Exception as e: print("other",type(e),e)
if found:
    p=found[-1]
    m=pg.All(*p)
    print(m.to_text())
    for q in p:
        print(repr(q),[ (c.id,c.bounds.as_tuple()) for c in q.propositions])
    puan.Bounds.__hash__=lambda self: hash((self.lower,self.upper))
    print("errors with fixed hash:", pg.All(*p).errors())
else: print("none found")
