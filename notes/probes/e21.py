from gen import *
import sys
rng = random.Random(int(sys.argv[1]) if len(sys.argv)>1 else 0)
kinds = ["AtLeast","AtMost","All","Any","Xor","XNor","Imply","Not"]
fails={}; stats=dict(n=0,const=0,taut=0,contr=0)
def fresh(m): return pg.from_b64(m.to_b64())
for it in range(1200):
    pool=make_pool(rng,3,1)
    try: m=rand_model(rng,pool,2,kinds)
    except Exception: continue
    if isinstance(m,puan.variable) or m.errors(): continue
    stats['n']+=1
    L=leaves_of(m)
    part={}
    for l in L:
        r=rng.random()
        lo,hi=l.bounds.as_tuple()
        if r<0.35: part[l.id]=rng.randint(lo,hi)
        elif r<0.6:
            a=rng.randint(lo,hi); b=rng.randint(a,hi); part[l.id]=rng.choice([(a,b),puan.Bounds(a,b)])
    res=fresh(m).evaluate_propositions(part)
    rng_of={}
    for l in L:
        if l.id in part:
            v=part[l.id]
            rng_of[l.id]=(v,v) if isinstance(v,int) else tuple(v)
        else: rng_of[l.id]=l.bounds.as_tuple()
    space=1
    for l in L: space*=rng_of[l.id][1]-rng_of[l.id][0]+1
    if space>600: continue
    nodes=[q for q in m.flatten() if not isinstance(q,puan.variable)]
    for vals in itertools.product(*[range(rng_of[l.id][0],rng_of[l.id][1]+1) for l in L]):
        env={l.id:v for l,v in zip(L,vals)}
        bad=False
        for q in nodes:
            if q.id not in res: continue
            r=ref_eval(q,env)
            b=res[q.id]
            if not (b.lower<=r<=b.upper):
                fails.setdefault(("C06",),[]).append((m.to_text(),part,env,q.id,b)); bad=True;break
        if bad: break
    if res[m.id].constant is not None: stats['const']+=1
    # tautology flags per node
    for q in nodes:
        ch=q.propositions
        sp=1
        for c in ch: sp*=c.bounds.upper-c.bounds.lower+1
        if sp>500: continue
        vals=[q.sign*sum(v)-q.value for v in itertools.product(*[range(c.bounds.lower,c.bounds.upper+1) for c in ch])]
        if q.equation_bounds!=(min(vals),max(vals)): fails.setdefault(("eqb",),[]).append((repr(q),q.equation_bounds,(min(vals),max(vals))))
        if q.is_tautology!=(min(vals)>=0): fails.setdefault(("taut",),[]).append(repr(q))
        if q.is_contradiction!=(max(vals)<0): fails.setdefault(("contr",),[]).append(repr(q))
        stats['taut']+=q.is_tautology; stats['contr']+=q.is_contradiction
print(stats)
for k,v in fails.items():
    print(k, len(v)); print("   ", v[0])
