from gen import *
import sys
rng = random.Random(int(sys.argv[1]) if len(sys.argv)>1 else 0)
fails={}; n=0
LE=list("abcdef")
for it in range(2000):
    def comps(k): return [{"id":i} for i in rng.sample(LE,k)]
    data={"consequence":{"ruleType":rng.choice(["REQUIRES_ALL","REQUIRES_ANY","ONE_OR_NONE","FORBIDS_ALL","REQUIRES_EXCLUSIVELY"]),"components":comps(rng.randint(1,4))}}
    if rng.random()<0.5: data["id"]="R"
    if rng.random()<0.3: data["consequence"]["id"]="Q"
    if rng.random()<0.8:
        subs=[]
        for s in range(rng.randint(0,3)):
            sc={"components":comps(rng.randint(1,3))}
            if rng.random()<0.7: sc["relation"]=rng.choice(["ALL","ANY"])
            subs.append(sc)
        data["condition"]={"subConditions":subs}
        if rng.random()<0.7: data["condition"]["relation"]=rng.choice(["ALL","ANY"])
    try: m=pg.Imply.from_cicJE(data)
    except Exception as e:
        fails.setdefault(("exc",type(e).__name__,str(e)[:60]),[]).append(data); continue
    if m.errors():
        fails.setdefault(("errors",str(m.errors())),[]).append(data); continue
    n+=1
    def sem(env):
        c=data["consequence"]; vals=[env[x["id"]] for x in c["components"]]; s=sum(vals)
        cons={"REQUIRES_ALL":s==len(vals),"REQUIRES_ANY":s>=1,"ONE_OR_NONE":s<=1,"FORBIDS_ALL":s==0,"REQUIRES_EXCLUSIVELY":s==1}[c["ruleType"]]
        cond=data.get("condition")
        if not cond or not cond.get("subConditions"): return int(cons)
        def rel(r,vs): return all(vs) if r=="ALL" else any(vs)
        subs=[rel(sc.get("relation","ALL"),[env[x["id"]] for x in sc["components"]]) for sc in cond["subConditions"]]
        cv = subs[0] if len(subs)==1 else rel(cond.get("relation","ALL"),subs)
        return int((not cv) or cons)
    for vals in itertools.product([0,1],repeat=6):
        env=dict(zip(LE,vals))
        r=m.evaluate(env).constant
        if r!=sem(env):
            fails.setdefault(("C04-cicJE",data["consequence"]["ruleType"]),[]).append((data,env,r)); break
print(n)
for k,v in fails.items(): print(k,len(v)); print("   ",str(min(v,key=lambda x:len(str(x))))[:500])
