import warnings; warnings.filterwarnings("ignore")
import random, itertools, sys
import puan, puan.ndarray as pnd, numpy as np
rng = random.Random(int(sys.argv[1]) if len(sys.argv)>1 else 0)
fails={}
for it in range(3000):
    nr=rng.randint(1,4); nc=rng.randint(1,4)
    M=np.array([[rng.randint(-3,3) for _ in range(nc+1)] for _ in range(nr)])
    P=pnd.ge_polyhedron(M)
    A=M[:,1:]; b=M[:,0]
    def sat_rows(p): return A.dot(p)>=b
    try:
        # 1d
        p=np.array([rng.randint(-2,3) for _ in range(nc)])
        r=P.ineqs_satisfied(p)
        if bool(r)!=bool(sat_rows(p).all()) or np.ndim(r)!=0: fails.setdefault(("sat1d",),[]).append((M.tolist(),p.tolist(),r))
        r=P.separable(p)
        if bool(r)!=(not sat_rows(p).all()) or np.ndim(r)!=0: fails.setdefault(("sep1d",),[]).append((M.tolist(),p.tolist(),r))
        r=np.asarray(P.ineq_separate_points(p))
        if r.shape!=(nr,) or (r.astype(bool)!=~sat_rows(p)).any(): fails.setdefault(("isp1d",),[]).append((M.tolist(),p.tolist(),r.tolist()))
        # 2d
        k=rng.randint(1,4)
        pts=np.array([[rng.randint(-2,3) for _ in range(nc)] for _ in range(k)])
        r=np.asarray(P.ineqs_satisfied(pts)); exp=np.array([sat_rows(q).all() for q in pts])
        if r.shape!=(k,) or (r.astype(bool)!=exp).any(): fails.setdefault(("sat2d",),[]).append((M.tolist(),pts.tolist(),r.tolist()))
        r=np.asarray(P.separable(pts))
        if r.shape!=(k,) or (r.astype(bool)!=~exp).any(): fails.setdefault(("sep2d",),[]).append((M.tolist(),pts.tolist(),r.tolist()))
        r=np.asarray(P.ineq_separate_points(pts)); exp_r=np.array([any(not sat_rows(q)[i] for q in pts) for i in range(nr)])
        if r.shape!=(nr,) or (r.astype(bool)!=exp_r).any(): fails.setdefault(("isp2d",),[]).append((M.tolist(),pts.tolist(),r.tolist()))
        # 3d
        g=rng.randint(1,3)
        pts3=np.array([[[rng.randint(-2,3) for _ in range(nc)] for _ in range(k)] for _ in range(g)])
        r=np.asarray(P.ineqs_satisfied(pts3)); exp=np.array([[sat_rows(q).all() for q in grp] for grp in pts3])
        if r.shape!=(g,k) or (r.astype(bool)!=exp).any(): fails.setdefault(("sat3d",),[]).append((M.tolist(),pts3.tolist(),r.tolist()))
        r=np.asarray(P.separable(pts3))
        if r.shape!=(g,k) or (r.astype(bool)!=~exp).any(): fails.setdefault(("sep3d",),[]).append((M.tolist(),pts3.tolist(),r.tolist()))
        r=np.asarray(P.ineq_separate_points(pts3)); exp_r=np.array([[any(not sat_rows(q)[i] for q in grp) for i in range(nr)] for grp in pts3])
        if r.shape!=(g,nr) or (r.astype(bool)!=exp_r).any(): fails.setdefault(("isp3d",),[]).append((M.tolist(),pts3.tolist(),r.tolist()))
    except Exception as e:
        import traceback
        fails.setdefault(("exc",type(e).__name__,str(e)[:80]),[]).append((M.tolist(),traceback.format_exc()[-500:]))
for k,v in fails.items():
    print(k, len(v)); print("   ", v[0])
print("done")
