from gen import *
import sys
rng = random.Random(int(sys.argv[1]) if len(sys.argv)>1 else 0)
fails={}; stats=dict(n=0,shared=0)
POS=["AtLeast","AtMost","All","Any","Xor"]
def mk_shared(pool, same_object):
    k=rng.choice(POS); ch=rng.sample(pool,rng.randint(1,3)); var=rng.choice([None,"S%d"%rng.randint(0,9)])
    v=rng.randint(-1,3); sg=rng.choice([1,-1])
    def make():
        if k=="AtLeast": return pg.AtLeast(v,ch,variable=var,sign=sg)
        if k=="AtMost": return pg.AtMost(v,ch,variable=var)
        return getattr(pg,k)(*ch,variable=var)
    if same_object:
        o=make(); return lambda: o
    return make
for it in range(3000):
    pool=make_pool(rng,4,1)
    S=mk_shared(pool, rng.random()<0.5)
    parents=[]
    used=set()
    for p in range(rng.randint(2,3)):
        others=[x for x in rng.sample(pool,rng.randint(0,2))]
        k=rng.choice(["All","Any","AtLeast","AtMost","Xor","ImplyCons"])
        var="P%d"%p
        ch=[S()]+others
        if k=="ImplyCons": parents.append(pg.Imply(rng.choice(pool),S(),variable=var))
        elif k=="AtLeast": parents.append(pg.AtLeast(rng.randint(1,2),ch,variable=var,sign=1))
        elif k=="AtMost": parents.append(pg.AtMost(1,ch,variable=var))
        else: parents.append(getattr(pg,k)(*ch,variable=var))
    m=pg.All(*parents,variable="TOP")
    stats['n']+=1
    e=m.errors()
    if e: fails.setdefault(("shared-rejected",str(e)),[]).append(m.to_text())
print(stats)
for k,v in fails.items(): print(k,len(v)); print("   ",str(min(v,key=len))[:900])
