import warnings; warnings.filterwarnings("ignore")
import puan, puan.logic.plog as pg, puan.modules.configurator as cc, numpy as np
c1=cc.StingyConfigurator(pg.Any("a",pg.Any("b")),id="c"); c2=cc.StingyConfigurator(cc.Any("a","b",default=["a"]),id="c")
print(hash(c1)==hash(c2), c1==c2)
print(c1.ge_polyhedron.default_prio_vector, c2.ge_polyhedron.default_prio_vector)
print(c1.ge_polyhedron is c1.ge_polyhedron)
