import warnings; warnings.filterwarnings("ignore")
import random, itertools, sys
import puan, puan.ndarray as pnd, numpy as np
rng = random.Random(int(sys.argv[1]) if len(sys.argv)>1 else 0)
I=pnd.integer_ndarray
fails={}
def keys(M):
    # M 2D list rows=levels; returns per column (row,absval,sign) or None
    out=[]
    for j in range(len(M[0])):
        k=None
        for r in range(len(M)):
            if M[r][j]!=0: k=(r,abs(M[r][j]),1 if M[r][j]>0 else -1)
        out.append(k)
    return out
def check_shadow(M, w, tag):
    ks=keys(M)
    w=[int(x) for x in w]
    for j,k in enumerate(ks):
        if k is None:
            if w[j]!=0: return "zero"
        else:
            if w[j]==0 or (w[j]>0)!=(k[2]>0): return "sign"
    nz=[j for j,k in enumerate(ks) if k is not None]
    for i in nz:
        lower=sum(abs(w[j]) for j in nz if ks[j][:2]<ks[i][:2])
        if not abs(w[i])>lower: return "dominance"
        for j in nz:
            if ks[j][:2]==ks[i][:2] and abs(w[i])!=abs(w[j]): return "ties"
    return None
n=0
for it in range(5000):
    nr=rng.randint(1,4); nc=rng.randint(1,6)
    M=[[rng.choice([0,0,rng.randint(-4,4)]) for _ in range(nc)] for _ in range(nr)]
    n+=1
    try:
        w=I(M).ndint_compress(method="shadow",axis=0)
        r=check_shadow(M,w,"ax0")
        if r: fails.setdefault(("shadow0",r),[]).append((M,np.asarray(w).tolist()))
        MT=[list(x) for x in zip(*M)]
        w=I(MT).ndint_compress(method="shadow",axis=1)
        r=check_shadow(M,w,"ax1")
        if r: fails.setdefault(("shadow1",r),[]).append((MT,np.asarray(w).tolist()))
        flat=[x for row in M for x in row]
        w=I(flat).ndint_compress(method="shadow")
        r=check_shadow([flat],w,"1d")
        if r: fails.setdefault(("shadow1d",r),[]).append((flat,np.asarray(w).tolist()))
        w=I(flat).ndint_compress(method="shadow",axis=0)
        r=check_shadow([flat],w,"1d")
        if r: fails.setdefault(("shadow1d-ax0",r),[]).append((flat,np.asarray(w).tolist()))
        # 3D batched
        M2=[[rng.choice([0,0,rng.randint(-4,4)]) for _ in range(nc)] for _ in range(nr)]
        w3=I([M,M2]).ndint_compress(method="shadow",axis=0)
        for Mi,wi in zip([M,M2],w3):
            r=check_shadow(Mi,wi,"3d")
            if r: fails.setdefault(("shadow3d",r),[]).append(([M,M2],np.asarray(w3).tolist()))
        # first/last/min/max
        A=np.array(M)
        for ax in (0,1):
            B = A if ax==0 else A.T   # compress along axis: B rows are "along"
            exp_first=[next((x for x in col if x!=0),0) for col in B.T]
            exp_last=[next((x for x in col[::-1] if x!=0),0) for col in B.T]
            exp_min=[min([x for x in col if x!=0],default=0) for col in B.T]
            exp_max=[max(col) for col in B.T]
            for meth,exp in (("first",exp_first),("last",exp_last),("min",exp_min),("max",exp_max)):
                got=np.asarray(I(M).ndint_compress(method=meth,axis=ax)).tolist()
                if got!=[int(x) for x in exp]: fails.setdefault((meth,ax),[]).append((M,got,exp))
        # prio
        for ax in (0,):
            p=np.asarray(I(M).ndint_compress(method="prio",axis=0)).tolist()
            ks=keys(M)
            uniq=sorted(set(k[:2] for k in ks if k))
            exp=[0 if k is None else (uniq.index(k[:2])+1)*k[2] for k in ks]
            if p!=exp: fails.setdefault(("prio",),[]).append((M,p,exp))
            rk=np.asarray(I(M).ndint_compress(method="rank",axis=0)).tolist()
            # order preserving dense wrt p
            up=sorted(set(p)); 
            base=rk[p.index(up[0])]
            exp=[up.index(x)+base for x in p]
            if rk!=exp or base not in (0,1): fails.setdefault(("rank",),[]).append((M,p,rk))
    except Exception as e:
        import traceback
        fails.setdefault(("exc",type(e).__name__,str(e)[:80]),[]).append((M,traceback.format_exc()[-500:]))
print(n)
for k,v in fails.items():
    print(k, len(v)); print("   ", v[0])
