import warnings; warnings.filterwarnings("ignore")
import puan, puan.ndarray as pnd, numpy as np
import puan_rspy as pr
print(pr.py_optimized_bit_allocation_64.__doc__)
for inp in [[1,1,1],[1,1,-2,-2,3],[-1,-1,-1,2,2],[1,-1,1],[5,5,-7],[-1,-1,-2, 1, 3,-4]]:
    print(inp, pr.py_optimized_bit_allocation_64(np.array(inp,dtype=np.int64)))
I = pnd.integer_ndarray
print(I([[ -1,-1,-2,-1],[0,3,0,-1]]).ndint_compress(method="shadow",axis=0))
print(I([[ -1,-1,-2,-1],[0,3,0,-1],[2,0,0,0]]).ndint_compress(method="shadow",axis=0))
print(I([1,2,1,0,4,4,6,-2,-7]).ndint_compress(method="shadow"))
print(I([[1,2,1,0],[4,4,6,-2]]).ndint_compress(method="shadow",axis=1))
print(I([[0,0],[0,0]]).ndint_compress(method="shadow",axis=0))
x = I(np.arange(1,40).reshape(1,-1))
try:
    print(x.ndint_compress(method="shadow",axis=0))
except BaseException as e: print("ERR", type(e), e)
x = I(np.arange(1,70).reshape(1,-1))
try:
    print(x.ndint_compress(method="shadow",axis=0))
except BaseException as e: print("ERR", type(e), e)
