from gen import *
import sys, json
rng = random.Random(int(sys.argv[1]) if len(sys.argv)>1 else 0)
fails={}; stats=dict(n=0)
def rand_rule(rng, items, named):
    k=rng.choice(["ccAny","ccXor","Any","Xor","AtMost","All","Imply","ccAnyD","ccXorD","XNor","AtLeast"])
    n=rng.randint(1,3)
    ch=rng.sample(items,min(n,len(items)))
    var=("R%d"%rng.randint(0,99)) if named else None
    if k in("ccAnyD","ccXorD"):
        d=rng.choice(ch+["zz"])
        return (cc.Any if k=="ccAnyD" else cc.Xor)(*ch,default=[d],variable=var)
    if k=="ccAny": return cc.Any(*ch,variable=var)
    if k=="ccXor": return cc.Xor(*ch,variable=var)
    if k=="Any": return pg.Any(*ch,variable=var)
    if k=="Xor": return pg.Xor(*ch,variable=var)
    if k=="XNor": return pg.XNor(*ch,variable=var)
    if k=="AtMost": return pg.AtMost(rng.randint(1,2),ch,variable=var)
    if k=="AtLeast": return pg.AtLeast(rng.randint(1,2),ch,variable=var)
    if k=="All": return pg.All(*ch,variable=var)
    if k=="Imply":
        cond=rng.choice([ch[0], pg.All(*ch[:2])])
        r=rand_rule(rng,items,rng.random()<0.5) if rng.random()<0.6 else pg.All(ch[-1])
        return pg.Imply(cond,r,variable=var)
def sig(c):
    cc.StingyConfigurator.ge_polyhedron.fget.cache_clear(); P=c.ge_polyhedron
    return (c.to_text(), sorted(c.default_prios.items()), np.asarray(P).tolist(), [v.id for v in P.variables], np.asarray(P.default_prio_vector).tolist())
for it in range(800):
    items=list("abcde")[:rng.randint(3,5)]
    rules=[];ids=set()
    for _ in range(rng.randint(1,3)):
        r=rand_rule(rng,items,rng.random()<0.6)
        if r.id in ids: continue
        ids.add(r.id); rules.append(r)
    cid = "cfg" if rng.random()<0.7 else None
    try: c=cc.StingyConfigurator(*rules,id=cid)
    except Exception as e:
        fails.setdefault(("build",str(e)[:60]),[]).append(None); continue
    if c.errors(): continue
    stats['n']+=1
    try:
        j=json.loads(json.dumps(c.to_json()))
        c2=cc.StingyConfigurator.from_json(j)
        if cid is None and 'id' in j: fails.setdefault(("gen-id-emitted",),[]).append(j)
        s1=sig(c); s2=sig(c2)
        if s1!=s2:
            which=[i for i,(a,b) in enumerate(zip(s1,s2)) if a!=b]
            fails.setdefault(("C16-cfg",tuple(which)),[]).append((j, s1[0], s2[0]))
    except Exception as e:
        import traceback
        fails.setdefault(("exc",type(e).__name__,str(e)[:80]),[]).append((c.to_text(),traceback.format_exc()[-600:]))
    # C18 add
    try:
        extra=rand_rule(rng,items+["f"],True)
        before=sig(c)
        if extra.id in [p.id for p in c.propositions]: continue
        c3=c.add(extra)
        direct=cc.StingyConfigurator(*(rules+[extra]),id=c.id)
        if sig(c3)!=sig(direct): fails.setdefault(("C18",),[]).append((c.to_text(),extra.to_text()))
        if c3.id!=c.id: fails.setdefault(("C18-id",),[]).append((c.id,c3.id))
        if sig(c)!=before: fails.setdefault(("C18-mut",),[]).append((c.to_text(),))
    except Exception as e:
        import traceback
        fails.setdefault(("exc18",type(e).__name__,str(e)[:80]),[]).append((c.to_text(),traceback.format_exc()[-600:]))
print(stats)
for k,v in fails.items():
    print(k, len(v)); print("   ", v[0])
