import warnings; warnings.filterwarnings("ignore")
import random, itertools, json
import puan, puan.logic.plog as pg, puan.ndarray as pnd, numpy as np
import puan.modules.configurator as cc

def rand_leaf(rng, pool):
    return rng.choice(pool)
def make_pool(rng, nbool=4, nint=2):
    pool = [puan.variable(chr(97+i)) for i in range(nbool)]
    for i in range(nint):
        lo = rng.randint(-3,2); hi = lo + rng.randint(1,4)
        pool.append(puan.variable("i%d"%i,(lo,hi)))
    return pool
counter=[0]
def rand_model(rng, pool, depth, kinds, explicit=0.7):
    counter[0]+=1
    k = rng.choice(kinds)
    def child():
        if depth<=0 or rng.random()<0.5: return rng.choice(pool)
        return rand_model(rng,pool,depth-1,kinds,explicit)
    n = rng.randint(1,3)
    ch = []
    seen=set()
    for _ in range(n):
        c = child()
        if c.id in seen: continue
        seen.add(c.id); ch.append(c)
    var = ("N%d"%counter[0]) if rng.random()<explicit else None
    if k=="AtLeast":
        return pg.AtLeast(rng.randint(-3,4), ch, variable=var, sign=rng.choice([1,-1]))
    if k=="AtMost": return pg.AtMost(rng.randint(-2,3), ch, variable=var)
    if k=="All": return pg.All(*ch, variable=var)
    if k=="Any": return pg.Any(*ch, variable=var)
    if k=="Xor": return pg.Xor(*ch, variable=var)
    if k=="XNor": return pg.XNor(*ch, variable=var)
    if k=="Imply":
        a=child(); b=child()
        if isinstance(b,puan.variable) and False: pass
        return pg.Imply(a,b,variable=var)
    if k=="Not":
        return pg.Not(child())
def leaves_of(m):
    return [p for p in m.flatten() if type(p)==puan.variable]
def ref_eval(m, env):
    # independent evaluator
    if isinstance(m, puan.variable): return env[m.id]
    s = sum(ref_eval(c, env) for c in m.propositions)
    return 1 if m.sign*s >= m.value else 0
