from gen import *
import sys
rng = random.Random(int(sys.argv[1]) if len(sys.argv)>1 else 0)
kinds = ["AtLeast","AtMost","All","Any","Xor","XNor","Imply","Not"]
fails = {}
stats=dict(valid=0,safe=0,c02pts=0)
def solver_safe(m):
    if isinstance(m,puan.variable): return True
    if m.sign<0 and any(not isinstance(c,puan.variable) for c in m.propositions): return False
    return all(solver_safe(c) for c in m.propositions)
for it in range(1500):
    pool = make_pool(rng,3,1)
    try: m = rand_model(rng,pool,2,kinds)
    except Exception as e:
        fails.setdefault(("build",type(e).__name__,str(e)[:60]),[]).append(None); continue
    if isinstance(m,puan.variable) or m.errors(): continue
    stats['valid']+=1
    L = leaves_of(m)
    # C05 negation complement
    try:
        n = m.negate()
    except Exception as e:
        fails.setdefault(("negate-exc",type(e).__name__,str(e)[:60]),[]).append(m.to_text()); continue
    nerr = n.errors()
    bad=False
    for vals in itertools.product(*[range(l.bounds.lower,l.bounds.upper+1) for l in L]):
        env = {l.id:v for l,v in zip(L,vals)}
        a = m.evaluate(env).constant; b = n.evaluate(env).constant
        if a is None or b is None or a+b != 1:
            mixed = any((not isinstance(q,puan.variable)) and q.sign>0 and 0<len(list(q.atomic_propositions))<len(q.propositions) for q in m.flatten())
            fails.setdefault(("C05", "mixed" if mixed else "nomixed"),[]).append((m.to_text(),env,a,b)); bad=True; break
    if solver_safe(m):
        stats['safe']+=1
        if all(l.bounds.as_tuple()==(0,1) for l in L) and not solver_safe(n):
            fails.setdefault(("C05-safe",),[]).append((m.to_text(),n.to_text()))
        # C02 converse
        P = m.to_ge_polyhedron(True)
        vs = list(P.A.variables)
        space=1
        for v in vs: space*= v.bounds.upper-v.bounds.lower+1
        if space<=5000:
            for vals in itertools.product(*[range(v.bounds.lower,v.bounds.upper+1) for v in vs]):
                x=np.array(vals)
                if (P.A.dot(x)>=P.b).all():
                    stats['c02pts']+=1
                    env={v.id:val for v,val in zip(vs,vals) if type(v)==puan.variable}
                    if m.evaluate(env).constant!=1:
                        fails.setdefault(("C02",),[]).append((m.to_text(),env)); break
print(stats)
for k,v in fails.items():
    print(k, len(v)); print("   ", v[0])
