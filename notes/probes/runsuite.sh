#!/bin/bash
# usage: runsuite.sh <repo_dir> ; prints missing-from-baseline passes
D=${1:-/repo}
OUT=$(mktemp /tmp/scratch/junit.XXXX.xml)
(cd $D && HYPOTHESIS_STORAGE_DIRECTORY=$(mktemp -d /tmp/scratch/hyp.XXXX) /venv/bin/python -m pytest -ra -q -p no:cacheprovider --timeout=900 --continue-on-collection-errors --junitxml=$OUT >/dev/null 2>&1)
python3 - "$OUT" <<'PY'
import sys, json, xml.etree.ElementTree as ET
base=set(json.load(open('/root/.vp/BASELINE.json'))['stable_pass'])
t=ET.parse(sys.argv[1]).getroot()
passed=set()
for tc in t.iter('testcase'):
    name=tc.get('classname')+'::'+tc.get('name')
    if not any(c.tag in('failure','error','skipped') for c in tc): passed.add(name)
print("passed",len(passed),"baseline",len(base),"missing",sorted(base-passed),"extra",sorted(passed-base))
PY
rm -f $OUT
