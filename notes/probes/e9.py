from gen import *
import sys
rng = random.Random(int(sys.argv[1]) if len(sys.argv)>1 else 0)
kinds = ["AtLeast","AtMost","All","Any","Xor","XNor","Imply","Not"]
stats = dict(n=0, valid=0, c03=0, c01=0, c01f=0)
fails = {}
for it in range(1500):
    pool = make_pool(rng)
    try:
        m = rand_model(rng,pool,2,kinds)
    except Exception as e:
        fails.setdefault(("build",type(e).__name__,str(e)[:60]),[]).append(None); continue
    stats['n']+=1
    if isinstance(m,puan.variable): continue
    if m.errors(): continue
    stats['valid']+=1
    L = leaves_of(m)
    space = 1
    for l in L: space *= (l.bounds.upper-l.bounds.lower+1)
    if space>3000: continue
    try:
        P = m.to_ge_polyhedron(True); P0 = m.to_ge_polyhedron(False)
    except BaseException as e:
        fails.setdefault(("poly",type(e).__name__,str(e)[:60]),[]).append(m.to_text()); continue
    for vals in itertools.product(*[range(l.bounds.lower,l.bounds.upper+1) for l in L]):
        env = {l.id:v for l,v in zip(L,vals)}
        ev = m.evaluate_propositions(env)
        # C03
        ok=True
        for node in m.flatten():
            if isinstance(node,puan.variable): continue
            r = ref_eval(node, env)
            if ev[node.id].constant != r:
                fails.setdefault(("C03",),[]).append((m.to_text(),env,node.id)); ok=False; break
        if not ok: break
        full = {k:v.constant for k,v in ev.items()}
        x = P.A.construct(full)
        sat = bool((P.A.dot(x) >= P.b).all())
        if sat != (full[m.id]==1):
            fails.setdefault(("C01",),[]).append((m.to_text(),env)); break
        x0 = P0.A.construct(full)
        if not bool((P0.A.dot(x0) >= P0.b).all()):
            fails.setdefault(("C01inactive",),[]).append((m.to_text(),env)); break
print(stats)
for k,v in fails.items():
    print(k, len(v)); print("   ", v[0])
