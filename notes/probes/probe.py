import sys, os, shutil, subprocess, tempfile
sys.path.insert(0,'/tmp/scratch/mut')
from mutants import M
from concurrent.futures import ThreadPoolExecutor
PROBE={"c03_assume_ge_gt":"e9","c05_negate_value":"e10","c02_negate_nopush":"e10","c06_eqmm":"e21","c07_assume_keepfixed":"e11","c08_reduce_sign":"e11","c11_amin":"e12","c12_rowbounds":"e12","c14_stack_order":"e16","c14_prio_lost":"e16","c15_select_ids":"e25","c16_atmost_value":"e19","c17_b64_index":"e25","c18_add_id":"e18","c19_axis":"e14","c20_default_upper":"e15","c04_all_len":"e20","c09_reduce_inplace":"e27"}
def run(m):
    name,prop,f,old,new=m
    if name not in PROBE: return name,"-"
    d=tempfile.mkdtemp(prefix='mp_',dir='/tmp/scratch/mut')
    subprocess.run("cd /repo && git archive HEAD puan | tar -x -C %s"%d,shell=True,check=True)
    p=os.path.join(d,f); s=open(p).read(); open(p,'w').write(s.replace(old,new))
    r=subprocess.run("cd /tmp/scratch && PYTHONPATH=%s PYTHONHASHSEED=0 timeout 900 /venv/bin/python -W ignore %s.py 1 2>&1 | cut -c1-160 | head -6"%(d,PROBE[name]),shell=True,capture_output=True,text=True)
    shutil.rmtree(d)
    return name,PROBE[name]+"\n      "+r.stdout.strip().replace("\n","\n      ")
with ThreadPoolExecutor(14) as ex:
    for r in ex.map(run,M): print(*r,flush=True)
