import warnings; warnings.filterwarnings("ignore")
import random, itertools, sys
import puan, puan.logic.plog as pg
if len(sys.argv)>2 and sys.argv[2]=="fix":
    puan.Bounds.__hash__ = lambda self: hash((self.lower,self.upper))
rng = random.Random(int(sys.argv[1]) if len(sys.argv)>1 else 0)
IDS=["a","b","ab","bc","abc","a1","1","A","B",""]
BND=[(0,1),(0,1),(0,1),(-1,2),(-2,3),(0,3),(1,2),(0,0),(-1,1),(1,1)]
def gen(depth, distinct=None):
    if depth==0 or rng.random()<0.4:
        i = rng.choice(IDS) if distinct is None else distinct.pop()
        return ("leaf", i, rng.choice(BND))
    n=rng.randint(1,3)
    ch=[gen(depth-1,distinct) for _ in range(n)]
    i = (rng.choice(IDS+[None,None,None]) if distinct is None else distinct.pop())
    return ("cmp", i, rng.randint(-1,3), rng.choice([1,-1,None]), ch, rng.choice([(0,1)]*6+[(0,0),(1,1)]))
def build(s):
    if s[0]=="leaf": return puan.variable(s[1], s[2])
    _,i,v,sg,ch,vb=s
    var=None if i is None else puan.variable(i,vb)
    return pg.AtLeast(v,[build(c) for c in ch],variable=var,sign=sg)
def well_defined(m):
    defs={}; edges={}
    dup=[False]
    def walk(q):
        if isinstance(q,puan.variable):
            defs.setdefault(q.id,[]).append(("v",q.bounds.as_tuple())); return
        defs.setdefault(q.id,[]).append(("c",q.variable.bounds.as_tuple(),int(q.sign),q.value,tuple(sorted(c.id for c in q.propositions))))
        ids=[c.id for c in q.propositions]
        if len(ids)!=len(set(ids)): dup[0]=True
        edges.setdefault(q.id,set()).update(ids)
        for c in q.propositions: walk(c)
    walk(m)
    if dup[0]: return False,"dup"
    for i,ds in defs.items():
        if len(set(d[1] for d in ds))>1: return False,"bounds"
        cs=set(d[2:] for d in ds if d[0]=="c")
        if len(cs)>1: return False,"cmpdef"
    # cycles
    color={}
    def dfs(u):
        color[u]=1
        for w in edges.get(u,()):
            if color.get(w)==1: return True
            if color.get(w) is None and dfs(w): return True
        color[u]=2; return False
    for u in list(edges):
        if color.get(u) is None and dfs(u): return False,"cycle"
    return True,""
fails={}; stats=dict(n=0,acc=0,wd=0,tree=0)
for it in range(20000):
    tree = rng.random()<0.2
    if tree:
        pool=[f"t{k}" for k in range(40)]; rng.shuffle(pool)
        s=gen(3,pool)
    else: s=gen(3)
    if s[0]=="leaf": continue
    try: m=build(s)
    except Exception as e:
        fails.setdefault(("build",type(e).__name__,str(e)[:50]),[]).append(s); continue
    stats['n']+=1
    try: errs=m.errors()
    except Exception as e:
        fails.setdefault(("errors-exc",type(e).__name__,str(e)[:50]),[]).append(s); continue
    wd,why=well_defined(m)
    stats['wd']+=wd; stats['acc']+=(not errs)
    if not errs and not wd: fails.setdefault(("accepted-illdefined",why),[]).append(s)
    if tree:
        stats['tree']+=1
        if errs: fails.setdefault(("tree-rejected",str(errs)),[]).append(s)
print(stats)
for k,v in fails.items():
    print(k, len(v)); print("   ", min(v,key=lambda x: len(str(x))))
