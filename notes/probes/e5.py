import warnings; warnings.filterwarnings("ignore")
import puan, puan.logic.plog as pg, puan.ndarray as pnd, numpy as np, itertools
import puan.modules.configurator as cc
c = cc.StingyConfigurator(cc.Xor("a","b","c",default="a",variable="X"), cc.Any("d","e",default="e",variable="Y"), pg.Imply("a", pg.All("d","f",variable="Z"), variable="I"), pg.AtMost(1,["e","f"],variable="M"), id="cfg")
print(c.errors())
print(c.to_text())
print(c.default_prios)
p = c.ge_polyhedron
print(np.asarray(p)); print([str(v.id)[:5] for v in p.variables]); print(p.default_prio_vector)
seen = {}
def solver(ph, objs):
    seen['ph']=ph; seen['objs']=objs
    return [(None,0,4) for o in objs]
print(list(c.select({"b":1}, {"f": 2, "c": -1}, solver=solver)))
print(seen['objs'])
print(list(c.select({"b":1}, {"f": 2, "c": -1})))
print(list(c.select({"b":1}, only_leafs=True)))
print(c.to_json())
