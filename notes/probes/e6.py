import warnings; warnings.filterwarnings("ignore")
import puan, puan.logic.plog as pg, puan.ndarray as pnd, numpy as np, itertools
import puan.modules.configurator as cc
m = pg.All(pg.Any("a","b",variable="B"),"c",variable="M")
print(m.evaluate({"a":1,"c":1}))
print(m.evaluate({"B":0,"a":1,"c":1}))
print(m.evaluate({"a":1,"c":1}), m.propositions[0].variable)
m = pg.All(pg.Any("a","b",variable="B"),"c",variable="M")
print(m.evaluate({"M":0}), m.variable, m.evaluate({"a":1,"c":1}), m.to_ge_polyhedron(True))
# lru cache
x1 = puan.variable("x",(0,3)); x2 = puan.variable("x",(1,2))
c1 = cc.StingyConfigurator(pg.AtLeast(2,[x1],variable="R"), id="cfg")
c2 = cc.StingyConfigurator(pg.AtLeast(2,[x2],variable="R"), id="cfg")
print(hash(c1)==hash(c2), c1==c2)
print([v.bounds for v in c1.ge_polyhedron.variables])
print([v.bounds for v in c2.ge_polyhedron.variables])
print(c1.ge_polyhedron is c2.ge_polyhedron)
