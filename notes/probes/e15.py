import warnings; warnings.filterwarnings("ignore")
import random, itertools, sys, math
import puan, puan.ndarray as pnd, numpy as np
rng = random.Random(int(sys.argv[1]) if len(sys.argv)>1 else 0)
fails={}
def rid(rng):
    r=rng.random()
    if r<0.5: return "".join(rng.choice("abcxyzåäö€#0 1") for _ in range(rng.randint(0,3)))
    if r<0.8: return rng.randint(-3,8)
    return (rng.randint(0,2),"t")
for it in range(3000):
    n=rng.randint(1,6)
    ids=[]
    while len(ids)<n:
        i=rid(rng)
        if i not in ids: ids.append(i)
    vs=[]
    for i in ids:
        r=rng.random()
        b=(0,1) if r<0.5 else ((lambda lo:(lo,lo+rng.randint(0,4)))(rng.randint(-4,3)))
        vs.append(puan.variable(i,b))
    nr=rng.randint(1,3)
    M=np.array([[rng.randint(-3,3) for _ in range(n)] for _ in range(nr)])
    try:
        V=pnd.variable_ndarray(M,variables=vs)
        d={}
        for i in ids:
            if rng.random()<0.5: d[i]=rng.randint(-5,5)
        d["__unknown__"]=7
        for dtype,defv in ((np.int64,None),(int,None),(np.int32,None),(float,None),(np.float32,None),(np.int64,lambda v: 9)):
            kw={}
            if defv: kw['default_value']=defv
            r=V.construct(d,dtype=dtype,**kw)
            for j,(i,v) in enumerate(zip(ids,vs)):
                if i in d: exp=d[i]
                elif defv: exp=9
                elif issubclass(dtype,(int,np.integer)): exp=v.bounds.lower
                else: exp=float('nan')
                got=r[j]
                if not ((isinstance(exp,float) and math.isnan(exp) and math.isnan(got)) or got==exp):
                    fails.setdefault(("construct",str(dtype)),[]).append((ids,d,r.tolist())); break
        bi=np.asarray(V.boolean_variable_indices).tolist(); ii=np.asarray(V.integer_variable_indices).tolist()
        eb=[j for j,v in enumerate(vs) if v.bounds.as_tuple()==(0,1)]; ei=[j for j,v in enumerate(vs) if v.bounds.as_tuple()!=(0,1)]
        if bi!=eb or ii!=ei: fails.setdefault(("indices",),[]).append((ids,[v.bounds.as_tuple() for v in vs],bi,ii))
        # A, b
        if n>=2:
            P=pnd.ge_polyhedron(M,variables=vs)
            if np.asarray(P.A).tolist()!=M[:,1:].tolist() or np.asarray(P.b).tolist()!=M[:,0].tolist() or [v.id for v in P.A.variables]!=ids[1:]:
                fails.setdefault(("Ab",),[]).append((M.tolist(),))
            A,b=P.to_linalg()
            if np.asarray(A).tolist()!=M[:,1:].tolist() or np.asarray(b).tolist()!=M[:,0].tolist(): fails.setdefault(("linalg",),[]).append((M.tolist(),))
        # from_list / to_list
        ctx=[i for i in ids]
        sub=[i for i in ids if rng.random()<0.5]; rng.shuffle(sub)
        if all(not isinstance(i,(list,tuple)) for i in sub):
            r=np.asarray(pnd.boolean_ndarray.from_list(sub,ctx)).tolist()
            exp=[1 if i in sub else 0 for i in ctx]
            if sub and r!=exp: fails.setdefault(("bfrom_list",),[]).append((sub,ctx,r))
            r=np.asarray(pnd.integer_ndarray.from_list(sub,ctx)).tolist()
            exp=[(sub.index(i)+1) if i in sub else 0 for i in ctx]
            if sub and r!=exp: fails.setdefault(("ifrom_list",),[]).append((sub,ctx,r,exp))
        bits=[rng.randint(0,1) for _ in range(n)]
        B=pnd.boolean_ndarray(bits,variables=vs) if False else None
    except Exception as e:
        import traceback
        fails.setdefault(("exc",type(e).__name__,str(e)[:80]),[]).append((ids,traceback.format_exc()[-700:]))
for k,v in fails.items():
    print(k, len(v)); print("   ", v[0])
print("done")
