import puan, puan.logic.plog as pg, puan.ndarray as pnd, numpy as np, itertools
import puan_rspy as pr
print(pr.__file__, [x for x in dir(pr) if not x.startswith('_')])
m = pg.All(pg.Any("a","b",variable="B"), pg.Any("c","d",variable="C"), pg.Any("C","B",variable="A"), variable="model")
print(m.errors())
print(m.flatten())
p = m.to_ge_polyhedron(True)
print(p, [ (v.id, type(v).__name__) for v in p.variables], p.index)
p = m.to_ge_polyhedron(False)
print(p, [ (v.id, type(v).__name__) for v in p.variables])
print(m.evaluate_propositions({"a":0,"b":0,"c":1,"d":0}))
