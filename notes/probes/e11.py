from gen import *
import sys, copy
rng = random.Random(int(sys.argv[1]) if len(sys.argv)>1 else 0)
kinds = ["AtLeast","AtMost","All","Any","Xor","XNor","Imply","Not"]
fails = {}
stats=dict(valid=0)
def fresh(m): return pg.from_b64(m.to_b64())
def rand_val(rng, b):
    lo,hi=b
    r=rng.random()
    if r<0.5: return rng.randint(lo,hi)
    a=rng.randint(lo,hi); c=rng.randint(a,hi)
    return (a,c) if r<0.75 else puan.Bounds(a,c)
for it in range(1200):
    pool = make_pool(rng,3,1)
    try: m = rand_model(rng,pool,2,kinds)
    except Exception as e: continue
    if isinstance(m,puan.variable) or m.errors(): continue
    stats['valid']+=1
    L = leaves_of(m)
    comp = [p for p in m.flatten() if not isinstance(p,puan.variable)]
    # assumption over subset of leaves (and sometimes compounds)
    asm={}
    for l in L:
        if rng.random()<0.4: asm[l.id]=rand_val(rng,l.bounds.as_tuple())
    use_comp = rng.random()<0.3
    if use_comp:
        c=rng.choice(comp); asm[c.id]=rng.choice([0,1])
    m1=fresh(m)
    try:
        am = m1.assume(asm)
    except Exception as e:
        fails.setdefault(("assume-exc",type(e).__name__,str(e)[:80]),[]).append((m.to_text(),asm)); continue
    rest=[l for l in L if l.id not in asm]
    space=1
    for l in rest: space*= l.bounds.upper-l.bounds.lower+1
    if space>500: continue
    for vals in itertools.product(*[range(l.bounds.lower,l.bounds.upper+1) for l in rest]):
        env={l.id:v for l,v in zip(rest,vals)}
        try:
            r1 = fresh(m).evaluate({**env,**asm})
            r2 = fresh(am).evaluate(env) if not isinstance(am,puan.variable) else am.evaluate(env)
        except Exception as e:
            fails.setdefault(("C07-exc",type(e).__name__,str(e)[:80]),[]).append((m.to_text(),asm,env)); break
        if r1!=r2:
            fails.setdefault(("C07",use_comp),[]).append((m.to_text(),asm,env,r1,r2)); break
    # C08 reduce after assume
    try:
        red = fresh(am).reduce() if not isinstance(am,puan.variable) else am
    except Exception as e:
        fails.setdefault(("reduce-exc",type(e).__name__,str(e)[:80]),[]).append((m.to_text(),asm)); continue
    # no constants remain
    fl = red.flatten()
    if len(fl)>1 and any(p.bounds.constant is not None for p in fl):
        fails.setdefault(("C08-const",),[]).append((m.to_text(),asm,red.to_text() if hasattr(red,'to_text') else red))
    for vals in itertools.product(*[range(l.bounds.lower,l.bounds.upper+1) for l in rest]):
        env={l.id:v for l,v in zip(rest,vals)}
        r1 = fresh(am).evaluate(env) if not isinstance(am,puan.variable) else am.evaluate(env)
        r2 = fresh(red).evaluate(env) if not isinstance(red,puan.variable) else red.evaluate(env)
        if r1!=r2:
            fails.setdefault(("C08",use_comp),[]).append((m.to_text(),asm,env,r1,r2, red.to_text() if hasattr(red,'to_text') else red)); break
print(stats)
for k,v in fails.items():
    print(k, len(v)); print("   ", v[0])
