from gen import *
import sys
rng = random.Random(int(sys.argv[1]) if len(sys.argv)>1 else 0)
kinds = ["AtLeast","AtMost","All","Any","Xor","XNor","Imply","Not"]
fails={}; stats=dict(n=0, opt=0)
def safe(m):
    if isinstance(m,puan.variable): return True
    if m.sign<0 and any(not isinstance(c,puan.variable) for c in m.propositions): return False
    return all(safe(c) for c in m.propositions)
for it in range(600):
    pool=make_pool(rng,3,1)
    try: m=rand_model(rng,pool,2,kinds,explicit=0.5)
    except Exception: continue
    if isinstance(m,puan.variable) or m.errors(): continue
    stats['n']+=1
    P=m.to_ge_polyhedron(True)
    cols=list(P.A.variables)
    allids=[c.id for c in cols]
    objs=[{i: rng.randint(-5,5) for i in rng.sample(allids, rng.randint(0,len(allids)))} for _ in range(2)]
    for o in objs: o["nope"]=3
    rec={}
    def marker(ph,ob):
        rec['ph']=ph; rec['ob']=ob
        return [(np.arange(100,100+ph.A.shape[1]), 7, 5), (None, None, 4)]
    for ivv in (False,True):
        res=list(m.solve(objs,solver=marker,include_virtual_variables=ivv))
        ph=rec['ph']
        if np.asarray(ph).tolist()!=np.asarray(P).tolist() or [v.id for v in ph.variables]!=[v.id for v in P.variables]:
            fails.setdefault(("ph",),[]).append(m.to_text())
        for o,vec in zip(objs,rec['ob']):
            exp=[o.get(i,0) for i in allids]
            if np.asarray(vec).tolist()!=exp: fails.setdefault(("obj",),[]).append((m.to_text(),o,np.asarray(vec).tolist()))
        sol,ov,sc=res[0]
        exp={c.id:100+j for j,c in enumerate(cols) if (isinstance(c,puan.variable) or ivv or not c.generated_id)}
        if sol!=exp or ov!=7 or sc!=5: fails.setdefault(("sol",ivv),[]).append((m.to_text(),sol,exp))
        if res[1]!=({},None,4): fails.setdefault(("none",),[]).append((res[1],))
    # exact solver
    space=1
    for c in cols: space*=c.bounds.upper-c.bounds.lower+1
    if space>4000: continue
    A=np.asarray(P.A); b=np.asarray(P.b)
    pts=np.array(list(itertools.product(*[range(c.bounds.lower,c.bounds.upper+1) for c in cols])))
    feas=pts[(pts.dot(A.T)>=b).all(axis=1)]
    def exact(ph,ob):
        out=[]
        for o in ob:
            if len(feas)==0: out.append((None,None,4)); continue
            vals=feas.dot(np.asarray(o)); k=int(vals.argmax()); out.append((feas[k],int(vals[k]),5))
        return out
    res=list(m.solve(objs,solver=exact,include_virtual_variables=True))
    for o,(sol,ov,sc) in zip(objs,res):
        if sc==4:
            continue
        stats['opt']+=1
        if safe(m):
            env={c.id:sol[c.id] for c in cols if type(c)==puan.variable}
            if m.evaluate(env).constant!=1: fails.setdefault(("C15-model",),[]).append((m.to_text(),sol))
        val=sum(o.get(i,0)*v for i,v in sol.items())
        if val!=ov or val!=int(feas.dot(np.array([o.get(i,0) for i in allids])).max()): fails.setdefault(("C15-opt",),[]).append((m.to_text(),o,sol))
print(stats)
for k,v in fails.items():
    print(k, len(v)); print("   ", v[0])
