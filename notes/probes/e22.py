from gen import *
import sys
rng = random.Random(int(sys.argv[1]) if len(sys.argv)>1 else 0)
kinds = ["AtLeast","AtMost","All","Any","Xor","XNor","Imply","Not"]
fails={}; stats=dict(n=0,pts=0,true=0)
for it in range(800):
    pool=[puan.variable(c) for c in "abc"]+[puan.variable("t",dtype="int"), puan.variable("u",(-32768,5)), puan.variable("w",(-7,32767))]
    counter[0]=0
    try:
        # bigger values
        m=rand_model(rng,pool,3,kinds)
        if rng.random()<0.5 and not isinstance(m,puan.variable):
            m=pg.All(m, pg.AtLeast(rng.randint(-40000,40000),[pool[3],rng.choice(pool)] if rng.random()<0.5 else [pool[3]],sign=rng.choice([1,-1]),variable="BIG"),variable="TOP")
    except Exception as e: 
        fails.setdefault(("build",str(e)[:60]),[]).append(None); continue
    if isinstance(m,puan.variable) or m.errors(): continue
    stats['n']+=1
    L=leaves_of(m)
    try:
        P=m.to_ge_polyhedron(True); P0=m.to_ge_polyhedron(False)
    except BaseException as e:
        fails.setdefault(("poly",type(e).__name__,str(e)[:80]),[]).append(m.to_text()); continue
    for _ in range(30):
        env={}
        for l in L:
            lo,hi=l.bounds.as_tuple()
            env[l.id]=rng.choice([lo,hi,rng.randint(lo,hi),max(lo,min(hi,rng.randint(-3,3)))])
        ev=m.evaluate_propositions(env)
        full={k:int(v.constant) for k,v in ev.items()}
        ok=True
        for q in m.flatten():
            if not isinstance(q,puan.variable) and full[q.id]!=ref_eval(q,env):
                fails.setdefault(("C03",),[]).append((m.to_text(),env)); ok=False
        x=P.A.construct(full).astype(object); A=np.asarray(P.A).astype(object); b=np.asarray(P.b).astype(object)
        sat=bool((A.dot(x)>=b).all())
        stats['pts']+=1; stats['true']+=full[m.id]
        if sat!=(full[m.id]==1): fails.setdefault(("C01",),[]).append((m.to_text(),env,np.asarray(P).tolist()))
        x0=P0.A.construct(full).astype(object)
        if not bool((np.asarray(P0.A).astype(object).dot(x0)>=np.asarray(P0.b).astype(object)).all()): fails.setdefault(("C01i",),[]).append((m.to_text(),env))
print(stats)
for k,v in fails.items():
    print(k, len(v)); print("   ", v[0])
