from gen import *
import sys, json
rng = random.Random(int(sys.argv[1]) if len(sys.argv)>1 else 0)
fails={}; stats=dict(n=0)
LE=list("abcd")
def rand_ast(rng,depth):
    if depth==0 or rng.random()<0.35: return rng.choice(LE)
    k=rng.choice(["All","Any","AtLeast","AtMost","Xor","XNor","Imply","Not"])
    if k=="Not": return ("Not",rand_ast(rng,depth-1))
    if k=="Imply": return ("Imply",rand_ast(rng,depth-1),rand_ast(rng,depth-1))
    n=rng.randint(1,3); ch=[]
    for _ in range(n):
        c=rand_ast(rng,depth-1)
        if c not in ch: ch.append(c)
    if k in("AtLeast","AtMost"): return (k,rng.randint(0,len(ch)+1),*ch)
    return (k,*ch)
def sem(a,env):
    if isinstance(a,str): return env[a]
    k=a[0]
    if k=="Not": return 1-sem(a[1],env)
    if k=="Imply": return int((not sem(a[1],env)) or sem(a[2],env))
    if k in("AtLeast","AtMost"):
        s=sum(sem(c,env) for c in a[2:]); return int(s>=a[1]) if k=="AtLeast" else int(s<=a[1])
    s=sum(sem(c,env) for c in a[1:]); n=len(a)-1
    return {"All":int(s==n),"Any":int(s>=1),"Xor":int(s==1),"XNor":int(s!=1)}[k]
def build(a):
    if isinstance(a,str): return a
    k=a[0]
    if k=="Not": return pg.Not(build(a[1]))
    if k=="Imply": return pg.Imply(build(a[1]),build(a[2]))
    if k=="AtLeast": return pg.AtLeast(a[1],[build(c) for c in a[2:]],sign=1)
    if k=="AtMost": return pg.AtMost(a[1],[build(c) for c in a[2:]])
    return getattr(pg,k)(*[build(c) for c in a[1:]])
def has_mixed_neg(a, under_neg=False):
    # does any negated (Not/Imply cond/XNor) positive node have mixed children
    return None
for it in range(3000):
    a=rand_ast(rng,3)
    if isinstance(a,str): continue
    try: m=build(a)
    except Exception as e:
        fails.setdefault(("build",type(e).__name__,str(e)[:70]),[]).append(a); continue
    if isinstance(m,puan.variable): continue
    errs=m.errors()
    if errs: 
        fails.setdefault(("errors",str(errs)),[]).append(a); continue
    stats['n']+=1
    mixed=any((not isinstance(q,puan.variable)) and 0<len(list(q.atomic_propositions))<len(q.propositions) for q in m.flatten())
    for vals in itertools.product([0,1],repeat=4):
        env=dict(zip(LE,vals))
        r=m.evaluate(env).constant
        if r!=sem(a,env):
            fails.setdefault(("C04","mixed" if mixed else "pure"),[]).append((a,env,r)); break
print(stats)
for k,v in fails.items():
    print(k, len(v)); print("   ", min(v,key=lambda x: len(str(x))))
