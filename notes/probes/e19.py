from gen import *
import sys, json
rng = random.Random(int(sys.argv[1]) if len(sys.argv)>1 else 0)
kinds = ["AtLeast","AtMost","All","Any","Xor","XNor","Imply","Not"]
fails={}; stats=dict(n=0)
def has_mixed(m):
    return any((not isinstance(q,puan.variable)) and 0<len(list(q.atomic_propositions))<len(q.propositions) for q in m.flatten())
def sign_nondefault(m):
    return any((not isinstance(q,puan.variable)) and type(q)==pg.AtLeast and q.sign != (1 if q.value>0 else -1) for q in m.flatten())
def tt(m, L):
    out=[]
    for vals in itertools.product(*[range(l.bounds.lower,l.bounds.upper+1) for l in L]):
        out.append(m.evaluate({l.id:v for l,v in zip(L,vals)}).constant)
    return out
for it in range(1500):
    pool=make_pool(rng,3,1)
    try: m=rand_model(rng,pool,2,kinds,explicit=0.5)
    except Exception: continue
    if isinstance(m,puan.variable) or m.errors(): continue
    stats['n']+=1
    L=leaves_of(m)
    cls=("mixed" if has_mixed(m) else "", "sign" if sign_nondefault(m) else "")
    try:
        j=json.loads(json.dumps(m.to_json()))
        m2=pg.from_json(j)
    except Exception as e:
        fails.setdefault(("exc",type(e).__name__,str(e)[:60])+cls,[]).append((m.to_text(),)); continue
    L2=leaves_of(m2) if not isinstance(m2,puan.variable) else [m2]
    if sorted((l.id,l.bounds.as_tuple()) for l in L)!=sorted((l.id,l.bounds.as_tuple()) for l in L2):
        fails.setdefault(("leaves",)+cls,[]).append((m.to_text(),j)); continue
    if tt(m,L)!=tt(m2,L): fails.setdefault(("tt",)+cls,[]).append((m.to_text(),j)); continue
    exp_ids=set(q.id for q in m.flatten() if not isinstance(q,puan.variable) and not q.generated_id)
    got_ids=set(q.id for q in m2.flatten() if not isinstance(q,puan.variable) and not q.generated_id)
    if m.generated_id==False and m2.id!=m.id: fails.setdefault(("topid",)+cls,[]).append((m.to_text(),j))
    if not exp_ids<=got_ids: fails.setdefault(("ids-lost",)+cls,[]).append((m.to_text(),j, exp_ids-got_ids))
print(stats)
for k,v in fails.items():
    print(k, len(v)); print("   ", v[0])
