from gen import *
import sys
rng = random.Random(int(sys.argv[1]) if len(sys.argv)>1 else 0)
fails={}; stats=dict(n=0)
def rand_rule(rng, items, named):
    k=rng.choice(["ccAny","ccXor","Any","Xor","AtMost","All","Imply","ccAnyD","ccXorD","XNor","AtLeast"])
    n=rng.randint(1,3)
    ch=rng.sample(items,min(n,len(items)))
    var=("R%d"%rng.randint(0,99)) if named else None
    if k in("ccAnyD","ccXorD"):
        d=rng.choice(ch+["zz"])
        return (cc.Any if k=="ccAnyD" else cc.Xor)(*ch,default=[d],variable=var)
    if k=="ccAny": return cc.Any(*ch,variable=var)
    if k=="ccXor": return cc.Xor(*ch,variable=var)
    if k=="Any": return pg.Any(*ch,variable=var)
    if k=="Xor": return pg.Xor(*ch,variable=var)
    if k=="XNor": return pg.XNor(*ch,variable=var)
    if k=="AtMost": return pg.AtMost(rng.randint(1,2),ch,variable=var)
    if k=="AtLeast": return pg.AtLeast(rng.randint(1,2),ch,variable=var)
    if k=="All": return pg.All(*ch,variable=var)
    if k=="Imply":
        cond=rng.choice([ch[0], pg.All(*ch[:2])])
        r=rand_rule(rng,items,rng.random()<0.5) if rng.random()<0.6 else pg.All(ch[-1])
        return pg.Imply(cond,r,variable=var)
def snap(q):
    if isinstance(q,puan.variable): return ("v",type(q).__name__,q.id,q.bounds.as_tuple())
    return (type(q).__module__+"."+type(q).__name__,q.id,q.variable.bounds.as_tuple(),int(q.sign),q.value,q.generated_id,getattr(q,'prio',None),tuple(snap(d) for d in getattr(q,'default',[]) or []),tuple(snap(c) for c in q.propositions))
for it in range(500):
    items=list("abcde")[:rng.randint(3,5)]
    rules=[];ids=set()
    for _ in range(rng.randint(1,3)):
        r=rand_rule(rng,items,rng.random()<0.6)
        if r.id in ids: continue
        ids.add(r.id); rules.append(r)
    try: c=cc.StingyConfigurator(*rules,id="cfg" if rng.random()<0.7 else None)
    except Exception as e: continue
    if c.errors(): continue
    stats['n']+=1
    # C17
    try:
        c2=pg.from_b64(c.to_b64())
        if snap(c)!=snap(c2) or c.to_text()!=c2.to_text(): fails.setdefault(("C17-prop",),[]).append(c.to_text())
        cc.StingyConfigurator.ge_polyhedron.fget.cache_clear()
        P=c.ge_polyhedron
        P2=pnd.ge_polyhedron_config.from_b64(P.to_b64())
        same=(np.asarray(P).tolist()==np.asarray(P2).tolist() and P.dtype==P2.dtype and [ (type(v).__name__,v.id,v.bounds.as_tuple()) for v in P.variables]==[(type(v).__name__,v.id,v.bounds.as_tuple()) for v in P2.variables] and [v.id for v in P.index]==[v.id for v in P2.index] and np.asarray(P.default_prio_vector).tolist()==np.asarray(P2.default_prio_vector).tolist() and type(P2) is type(P))
        if not same: fails.setdefault(("C17-poly",),[]).append(c.to_text())
        pr={i: rng.choice([-2,-1,1,2]) for i in rng.sample(items, rng.randint(0,2))}
        def marker(ph,ob): return [(np.arange(100,100+ph.A.shape[1]),sum(map(int,o)),5) for o in ob]
        r1=list(P.select(pr,solver=marker)); r2=list(P2.select(pr,solver=marker))
        if r1!=r2: fails.setdefault(("C17-select",),[]).append(c.to_text())
        # C15 select
        rec={}
        def marker2(ph,ob):
            rec['ph']=ph; rec['ob']=ob
            return [(np.arange(100,100+ph.A.shape[1]),7,5),(None,None,4)][:len(ob)]
        res=list(c.select(pr,{},solver=marker2))
        cols=list(P.A.variables)
        exp={v.id:100+j for j,v in enumerate(cols)}
        if res[0]!=(exp,7,5) or res[1]!=({},None,4): fails.setdefault(("C15-select",),[]).append((c.to_text(),res))
        res=list(c.select(pr,solver=marker2,only_leafs=True))
        expl={v.id:100+j for j,v in enumerate(cols) if type(v)==puan.variable}
        if res[0]!=expl: fails.setdefault(("C15-leafs",),[]).append((c.to_text(),res,expl))
        def boom(ph,ob): raise RuntimeError("x")
        try:
            c.select(pr,solver=boom); fails.setdefault(("C15-noraise",),[]).append(1)
        except pnd.InfeasibleError: pass
    except Exception as e:
        import traceback
        fails.setdefault(("exc",type(e).__name__,str(e)[:80]),[]).append((c.to_text(),traceback.format_exc()[-600:]))
print(stats)
for k,v in fails.items():
    print(k, len(v)); print("   ", str(v[0])[:1500])
