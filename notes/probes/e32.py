import warnings; warnings.filterwarnings("ignore")
import random, sys
import puan, puan.ndarray as pnd, numpy as np
rng = random.Random(int(sys.argv[1]) if len(sys.argv)>1 else 0)
I=pnd.integer_ndarray
fails={}; stats=dict(n=0,skipped_overflow=0)
def keys(M):
    out=[]
    for j in range(len(M[0])):
        k=None
        for r in range(len(M)):
            if M[r][j]!=0: k=(r,abs(M[r][j]),1 if M[r][j]>0 else -1)
        out.append(k)
    return out
def minimal_total(ks):
    groups=sorted(set(k[:2] for k in ks if k))
    cnt={g:sum(1 for k in ks if k and k[:2]==g) for g in groups}
    total=0; 
    for g in groups:
        w=total+1; total+=w*cnt[g]
    return total
for it in range(3000):
    nr=rng.randint(1,6); nc=rng.randint(1,30)
    big=rng.random()<0.3
    M=[[rng.choice([0,rng.randint(-10**6,10**6) if big else rng.randint(-60,60)]) for _ in range(nc)] for _ in range(nr)]
    ks=keys(M)
    if minimal_total(ks)>=2**63: stats['skipped_overflow']+=1; continue
    stats['n']+=1
    w=[int(x) for x in I(M).ndint_compress(method="shadow",axis=0)]
    nz=[j for j,k in enumerate(ks) if k]
    bad=None
    for j,k in enumerate(ks):
        if k is None and w[j]!=0: bad="zero"
        if k is not None and (w[j]==0 or (w[j]>0)!=(k[2]>0)): bad="sign"
    for i in nz:
        if not abs(w[i])>sum(abs(w[j]) for j in nz if ks[j][:2]<ks[i][:2]): bad="dom"
        for j in nz:
            if (ks[j][:2]==ks[i][:2])!=(abs(w[i])==abs(w[j])): bad="ties"
    if bad: fails.setdefault((bad,),[]).append((M,w))
print(stats)
for k,v in fails.items(): print(k,len(v)); print("   ",str(min(v,key=lambda x:len(str(x))))[:600])
