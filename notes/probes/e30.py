from gen import *
import sys, json
rng = random.Random(int(sys.argv[1]) if len(sys.argv)>1 else 0)
fails={}; stats=dict(hist=0,steps=0)
def clear_caches():
    import functools, inspect
    for mod in (puan, pg, pnd, cc):
        for name,obj in list(vars(mod).items()):
            if inspect.isclass(obj):
                for k,v in list(vars(obj).items()):
                    for cand in (v, getattr(v,'fget',None), getattr(v,'__func__',None)):
                        if hasattr(cand,'cache_clear'): cand.cache_clear()
            elif hasattr(obj,'cache_clear'): obj.cache_clear()
def canon(x):
    if isinstance(x,puan.Bounds): return ("B",int(x.lower),int(x.upper))
    if isinstance(x,pg.AtLeast): return ("P",type(x).__name__,x.to_text(),x.generated_id)
    if isinstance(x,puan.variable): return ("v",x.id,canon(x.bounds))
    if isinstance(x,np.ndarray):
        return ("A",np.asarray(x).tolist(),[ (v.id,v.bounds.as_tuple()) for v in x.variables] if getattr(x,'variables',None) is not None and np.ndim(x)>0 else None, np.asarray(getattr(x,'default_prio_vector',[])).tolist())
    if isinstance(x,dict): return ("D",sorted((str(k),canon(v)) for k,v in x.items()))
    if isinstance(x,(list,tuple)): return ("L",[canon(v) for v in x])
    if isinstance(x,np.integer): return int(x)
    if isinstance(x,(int,str,float,bool,type(None))): return x
    return repr(x)
def snap(q):
    if isinstance(q,puan.variable): return ("v",q.id,q.bounds.as_tuple())
    return (type(q).__module__,type(q).__name__,q.id,q.variable.bounds.as_tuple(),int(q.sign),q.value,q.generated_id,getattr(q,'prio',None),tuple(snap(c) for c in q.propositions))
def rand_rule(rng, items, named):
    k=rng.choice(["ccAny","ccXor","Any","Xor","AtMost","All","Imply","ccAnyD","ccXorD","XNor","AtLeast"])
    n=rng.randint(1,4)
    ch=rng.sample(items,min(n,len(items)))
    var=("R%d"%rng.randint(0,99)) if named else None
    if k in("ccAnyD","ccXorD"):
        d=rng.choice(ch+["zz"])
        return (cc.Any if k=="ccAnyD" else cc.Xor)(*ch,default=[d],variable=var)
    if k=="ccAny": return cc.Any(*ch,variable=var)
    if k=="ccXor": return cc.Xor(*ch,variable=var)
    if k=="Any": return pg.Any(*ch,variable=var)
    if k=="Xor": return pg.Xor(*ch,variable=var)
    if k=="XNor": return pg.XNor(*ch,variable=var)
    if k=="AtMost": return pg.AtMost(rng.randint(1,2),ch,variable=var)
    if k=="AtLeast": return pg.AtLeast(rng.randint(1,2),ch,variable=var)
    if k=="All": return pg.All(*ch,variable=var)
    if k=="Imply":
        cond=rng.choice([ch[0], pg.All(*ch[:2])])
        r=rand_rule(rng,items,rng.random()<0.5) if rng.random()<0.6 else pg.All(ch[-1])
        return pg.Imply(cond,r,variable=var)
def exact(ph,ob):
    cols=list(ph.A.variables); A=np.asarray(ph.A); b=np.asarray(ph.b)
    pts=np.array(list(itertools.product(*[range(c.bounds.lower,c.bounds.upper+1) for c in cols])))
    feas=pts[(pts.dot(A.T)>=b).all(axis=1)]
    out=[]
    for o in ob:
        if len(feas)==0: out.append((None,None,4)); continue
        vals=feas.dot(np.asarray(o).astype(int)); k=int(vals.argmax()); out.append((feas[k],int(vals[k]),5))
    return out
def ops(c,rng,items):
    L=[p for p in c.flatten() if type(p)==puan.variable]
    def interp():
        return {l.id:rng.randint(0,1) for l in L if rng.random()<0.6}
    def prios():
        return {i:rng.choice([-2,-1,1,2]) for i in rng.sample(items,rng.randint(0,2))}
    k=rng.choice(["evaluate","evalprops","assume","reduce","negate","errors","to_json","to_b64","gepoly","defprios","leafs","select","select_leafs","add","solve","to_text"])
    if k=="evaluate": d=interp(); return (k,d),lambda o:o.evaluate(d)
    if k=="evalprops": d=interp(); return (k,d),lambda o:o.evaluate_propositions(d)
    if k=="assume": d=interp(); return (k,d),lambda o:o.assume(d)
    if k=="reduce": return (k,),lambda o:o.reduce()
    if k=="negate": return (k,),lambda o:o.negate()
    if k=="errors": return (k,),lambda o:[str(e) for e in o.errors()]
    if k=="to_json": return (k,),lambda o:json.dumps(o.to_json(),sort_keys=True)
    if k=="to_text": return (k,),lambda o:o.to_text()
    if k=="to_b64": return (k,),lambda o:o.to_b64()
    if k=="gepoly": return (k,),lambda o:o.ge_polyhedron
    if k=="defprios": return (k,),lambda o:o.default_prios
    if k=="leafs": return (k,),lambda o:o.leafs()
    if k=="select": p=prios(); return (k,p),lambda o:list(o.select(p,solver=exact))
    if k=="select_leafs": p=prios(); return (k,p),lambda o:list(o.select(p,solver=exact,only_leafs=True))
    if k=="solve": p=prios(); return (k,p),lambda o:list(o.solve([p],solver=exact))
    if k=="add":
        r=rand_rule(rng,items+["g"],True); rb=r.to_b64()
        return (k,r.to_text()),lambda o:o.add(pg.from_b64(rb))
for it in range(150):
    items=list("abcde")[:rng.randint(3,4)]
    rules=[];ids=set()
    for _ in range(rng.randint(1,2)):
        r=rand_rule(rng,items,rng.random()<0.6)
        if r.id in ids: continue
        ids.add(r.id); rules.append(r)
    try: c=cc.StingyConfigurator(*rules,id="cfg" if rng.random()<0.7 else None)
    except Exception: continue
    if c.errors(): continue
    clear_caches()
    if c.ge_polyhedron.A.shape[1]>11: continue
    b64=c.to_b64(); s0=snap(c)
    stats['hist']+=1; hist=[]
    for step in range(8):
        desc,f=ops(c,rng,items); hist.append(desc); stats['steps']+=1
        def run(o):
            try: return canon(f(o))
            except Exception as e: return ("EXC",type(e).__name__,str(e)[:40])
        r=run(c)
        clear_caches()   # NOTE: prototype only; the real design uses a separate reference process
        rf=run(pg.from_b64(b64))
        if r!=rf: fails.setdefault(("result",desc[0]),[]).append((c.to_text(),hist)); break
        if snap(c)!=s0: fails.setdefault(("state",desc[0]),[]).append((c.to_text(),hist)); break
print(stats)
for k,v in fails.items():
    print(k, len(v)); print("   ", str(min(v,key=lambda x: len(str(x))))[:900])
