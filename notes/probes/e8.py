import warnings; warnings.filterwarnings("ignore")
import json
import puan, puan.logic.plog as pg, puan.ndarray as pnd, numpy as np, itertools
import puan.modules.configurator as cc
def tt(m, leaves):
    out=[]
    for vals in itertools.product(*[range(l.bounds.lower,l.bounds.upper+1) for l in leaves]):
        out.append(m.evaluate({l.id:v for l,v in zip(leaves,vals)}).constant)
    return out
def rt(m):
    j = json.loads(json.dumps(m.to_json()))
    m2 = pg.from_json(j)
    leaves = [p for p in m.flatten() if isinstance(p, puan.variable)]
    print(repr(m), '->', repr(m2), tt(m,leaves)==tt(m2,leaves), j)
rt(pg.AtLeast(0,["x"],sign=1,variable="A"))
rt(pg.AtLeast(1,["x","y"],sign=-1,variable="A"))
rt(pg.AtLeast(3,[pg.Any("a","b",variable="P"),pg.Any("c","d",variable="Q")],variable="A").negate())
rt(pg.Imply(pg.All("a",pg.Any("b","c",variable="P"),variable="C"), pg.Any("d"), variable="I"))
rt(pg.XNor(pg.All("x","y",variable="X"),pg.Any("z","u",variable="Y"),"w",variable="A"))
rt(pg.Not(pg.Xor("x","y",variable="X")))
rt(pg.Imply(pg.Xor("x","y",variable="X"), "z", variable="I"))
rt(pg.All(pg.AtMost(2,[puan.variable("t",(-2,3)),"x"],variable="M"),variable="A"))
