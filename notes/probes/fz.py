import sys, os, warnings
warnings.filterwarnings("ignore")
import atheris
with atheris.instrument_imports(include=["puan"]):
    import puan, puan.logic.plog as pg
import json
def build(fdp, depth, ids):
    if depth==0 or fdp.ConsumeIntInRange(0,2)==0:
        i=ids[fdp.ConsumeIntInRange(0,len(ids)-1)]
        k=fdp.ConsumeIntInRange(0,3)
        b=[(0,1),(0,3),(1,2),(-1,2)][k]
        return puan.variable(i,b)
    n=fdp.ConsumeIntInRange(1,3)
    ch=[build(fdp,depth-1,ids) for _ in range(n)]
    v=fdp.ConsumeIntInRange(-2,3); s=[1,-1][fdp.ConsumeIntInRange(0,1)]
    var=None if fdp.ConsumeBool() else ids[fdp.ConsumeIntInRange(0,len(ids)-1)].upper()
    return pg.AtLeast(v,ch,variable=var,sign=s)
cnt=[0]
def TestOneInput(data):
    fdp=atheris.FuzzedDataProvider(data)
    try:
        m=build(fdp,3,list("abcd"))
    except Exception: return
    if isinstance(m,puan.variable): return
    cnt[0]+=1
    e=m.errors()
    if not e:
        # oracle: per id single bounds
        seen={}
        def walk(q):
            if isinstance(q,puan.variable):
                seen.setdefault(q.id,set()).add(q.bounds.as_tuple())
            else:
                seen.setdefault(q.id,set()).add(q.variable.bounds.as_tuple())
                for c in q.propositions: walk(c)
        walk(m)
        if any(len(v)>1 for v in seen.values()):
            raise RuntimeError("ambivalent accepted: "+m.to_text())
atheris.Setup(sys.argv, TestOneInput)
atheris.Fuzz()
