import warnings; warnings.filterwarnings("ignore")
import random, itertools, sys
import puan, puan.ndarray as pnd, numpy as np
rng = random.Random(int(sys.argv[1]) if len(sys.argv)>1 else 0)
fails={}
stats=dict(n=0,feas=0,forced=0,rowsred=0,infeas=0, tight=0, inverted=0)
def box_points(vars_):
    return itertools.product(*[range(v.bounds.lower,v.bounds.upper+1) for v in vars_])
for it in range(4000):
    nr=rng.randint(1,4); nc=rng.randint(1,4)
    coefmax = rng.choice([1,1,2,3,5])
    M=[[rng.randint(-4,4)]+[rng.choice([0,0,1,-1,rng.randint(-coefmax,coefmax)]) for _ in range(nc)] for _ in range(nr)]
    vs=[puan.variable.support_vector_variable()]
    for j in range(nc):
        r=rng.random()
        if r<0.5: b=(0,1)
        elif r<0.9:
            lo=rng.randint(-3,2); b=(lo,lo+rng.randint(0,3))
        else: b=(rng.randint(-2,2),)*2
        vs.append(puan.variable("v%d"%j,b))
    P=pnd.ge_polyhedron(M,variables=vs,index=[puan.variable("r%d"%i) for i in range(nr)])
    stats['n']+=1
    A=np.asarray(P.A); b=np.asarray(P.b)
    pts=[np.array(p) for p in box_points(vs[1:])]
    sols=[p for p in pts if (A.dot(p)>=b).all()]
    if sols: stats['feas']+=1
    else: stats['infeas']+=1
    try:
        # C12
        tb=np.asarray(P.tighten_column_bounds())
        cb=np.asarray(P.column_bounds())
        if (tb[0]<cb[0]).any() or (tb[1]>cb[1]).any(): fails.setdefault(("C12-widen",),[]).append((M,[v.bounds.as_tuple() for v in vs]))
        if (tb!=cb).any(): stats['tight']+=1
        if (tb[0]>tb[1]).any():
            stats['inverted']+=1
            if sols: fails.setdefault(("C12-inverted-feasible",),[]).append((M,[v.bounds.as_tuple() for v in vs]))
        for s in sols:
            if (s<tb[0]).any() or (s>tb[1]).any():
                fails.setdefault(("C12-cut",),[]).append((M,[v.bounds.as_tuple() for v in vs],s.tolist(),tb.tolist())); break
        rb=np.asarray(P.row_bounds())
        vals=np.array([A.dot(p)-b for p in pts])
        if (rb[:,0]!=vals.min(axis=0)).any() or (rb[:,1]!=vals.max(axis=0)).any():
            fails.setdefault(("C12-rowbounds",),[]).append((M,[v.bounds.as_tuple() for v in vs],rb.tolist()))
        nrc=np.asarray(P.n_row_combinations)
        exp=[int(np.prod([ (v.bounds.upper-v.bounds.lower+1) if A[i][j]!=0 else 1 for j,v in enumerate(vs[1:])])) for i in range(nr)]
        if nrc.tolist()!=exp: fails.setdefault(("C12-nrc",),[]).append((M,nrc.tolist(),exp))
        # C11
        rr=np.asarray(P.reducable_rows())
        for i in range(nr):
            if rr[i] and not all(A[i].dot(p)>=b[i] for p in pts):
                fails.setdefault(("C11-rows",),[]).append((M,[v.bounds.as_tuple() for v in vs]))
        rca=np.asarray(P.reducable_columns_approx())
        for j in range(nc):
            if not np.isnan(rca[j]):
                if any(s[j]!=rca[j] for s in sols): fails.setdefault(("C11-cols",),[]).append((M,[v.bounds.as_tuple() for v in vs],rca.tolist()))
        rows,cols=P.reducable_rows_and_columns()
        rows=np.asarray(rows); cols=np.asarray(cols,dtype=float)
        if (~np.isnan(cols)).any(): stats['forced']+=1
        if rows.any(): stats['rowsred']+=1
        for j in range(nc):
            if not np.isnan(cols[j]) and any(s[j]!=cols[j] for s in sols):
                fails.setdefault(("C11-forced",),[]).append((M,[v.bounds.as_tuple() for v in vs],cols.tolist())); break
        R=P.reduce(rows,cols)
        keep=[j for j in range(nc) if np.isnan(cols[j])]
        proj=set(tuple(int(s[j]) for j in keep) for s in sols)
        RA=np.asarray(R.A); Rb=np.asarray(R.b)
        rv=list(R.A.variables)
        if [v.id for v in rv]!=[vs[1+j].id for j in keep]: fails.setdefault(("C11-vars",),[]).append((M,))
        if len(R.index)!=R.shape[0]: fails.setdefault(("C11-index",),[]).append((M,))
        exp_idx=[P.index[i].id for i in range(nr) if not rows[i]]
        if [v.id for v in R.index]!=exp_idx: fails.setdefault(("C11-indexids",),[]).append((M,))
        rs=set()
        for p in box_points(rv):
            p=np.array(p,dtype=int)
            if RA.shape[1]==0:
                ok=(0>=Rb).all()
            else: ok=(RA.dot(p)>=Rb).all()
            if ok: rs.add(tuple(int(x) for x in p))
        if rs!=proj:
            fails.setdefault(("C11-proj",),[]).append((M,[v.bounds.as_tuple() for v in vs],rows.tolist(),cols.tolist(),np.asarray(R).tolist(),sorted(proj)[:5],sorted(rs)[:5]))
    except Exception as e:
        import traceback
        fails.setdefault(("exc",type(e).__name__,str(e)[:80]),[]).append((M,[v.bounds.as_tuple() for v in vs], traceback.format_exc()[-600:]))
print(stats)
for k,v in fails.items():
    print(k, len(v)); print("   ", v[0])
