import sys, os, shutil, subprocess, json, tempfile
sys.path.insert(0,'/tmp/scratch/mut')
from mutants import M
import xml.etree.ElementTree as ET
from concurrent.futures import ThreadPoolExecutor
base=set(json.load(open('/root/.vp/BASELINE.json'))['stable_pass'])
def run(m):
    name,prop,f,old,new=m
    d=tempfile.mkdtemp(prefix='mut_',dir='/tmp/scratch/mut')
    subprocess.run("cd /repo && git archive HEAD | tar -x -C %s"%d,shell=True,check=True)
    p=os.path.join(d,f); s=open(p).read()
    if s.count(old)!=1:
        shutil.rmtree(d); return name,prop,"PATCH-MISMATCH(%d)"%s.count(old)
    open(p,'w').write(s.replace(old,new))
    out=os.path.join(d,'junit.xml'); hyp=os.path.join(d,'hypdb')
    subprocess.run("cd %s && HYPOTHESIS_STORAGE_DIRECTORY=%s /venv/bin/python -m pytest -q -p no:cacheprovider --timeout=900 --continue-on-collection-errors --junitxml=%s >/dev/null 2>&1"%(d,hyp,out),shell=True)
    try:
        t=ET.parse(out).getroot(); passed=set()
        for tc in t.iter('testcase'):
            n=tc.get('classname')+'::'+tc.get('name')
            if not any(c.tag in('failure','error','skipped') for c in tc): passed.add(n)
        missing=sorted(base-passed)
        res="SURVIVES" if not missing else "KILLED-BY-TESTS "+",".join(x.split('::')[-1] for x in missing)[:150]
    except Exception as e: res="ERR %s"%e
    shutil.rmtree(d)
    return name,prop,res
with ThreadPoolExecutor(14) as ex:
    for r in ex.map(run,M): print(*r,flush=True)
