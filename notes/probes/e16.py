from gen import *
import sys
rng = random.Random(int(sys.argv[1]) if len(sys.argv)>1 else 0)
fails={}; stats=dict(cfg=0,pairs=0,feas=0,big=0,err=0,defaulted=0)
def rand_rule(rng, items, depth=1):
    k=rng.choice(["ccAny","ccXor","Any","Xor","AtMost","All","Imply","ccAnyD","ccXorD"])
    n=rng.randint(2,3)
    ch=rng.sample(items,min(n,len(items)))
    if k in("ccAnyD","ccXorD"):
        d=rng.choice(ch)
        return (cc.Any if k=="ccAnyD" else cc.Xor)(*ch,default=[d]), True
    if k=="ccAny": return cc.Any(*ch),False
    if k=="ccXor": return cc.Xor(*ch),False
    if k=="Any": return pg.Any(*ch),False
    if k=="Xor": return pg.Xor(*ch),False
    if k=="AtMost": return pg.AtMost(rng.randint(1,2),ch),False
    if k=="All": return pg.All(*ch),False
    if k=="Imply":
        cond=rng.choice([ch[0], pg.All(*ch[:2])]) 
        r,d=rand_rule(rng,items) if rng.random()<0.6 else (ch[-1],False)
        if isinstance(r,str): r=pg.All(r)
        return pg.Imply(cond,r),d
def nondefault_ids(node,acc):
    if isinstance(node,puan.variable): return
    if isinstance(node,cc.Any) and node.default and len(node.propositions)==2:
        did=node.default[0].id
        kids=node.propositions
        if any(k.id==did for k in kids):
            for k in kids:
                if k.id!=did and not isinstance(k,puan.variable): acc.add(k.id)
    for c in node.propositions: nondefault_ids(c,acc)
for it in range(400):
    items=list("abcde")[:rng.randint(3,5)]
    rules=[];anyd=False
    ids=set()
    for _ in range(rng.randint(1,3)):
        r,d=rand_rule(rng,items)
        if r.id in ids: continue
        ids.add(r.id); rules.append(r); anyd|=d
    try:
        c=cc.StingyConfigurator(*rules,id="cfg")
    except Exception as e:
        fails.setdefault(("build",str(e)[:60]),[]).append(None); continue
    if c.errors(): stats['err']+=1; continue
    P=c.ge_polyhedron
    n=P.A.shape[1]
    if n>15: stats['big']+=1; continue
    stats['cfg']+=1; stats['defaulted']+=anyd
    vs=list(P.A.variables)
    colid=[v.id for v in vs]
    A=np.asarray(P.A); b=np.asarray(P.b)
    pts=np.array(list(itertools.product([0,1],repeat=n)))
    feas=pts[(pts.dot(A.T)>=b).all(axis=1)]
    stats['feas']+=len(feas)
    nd=set(); nondefault_ids(c,nd)
    # prios
    pr={}
    cand=items+[i for i in colid if i not in items][:2]
    for i in rng.sample(cand, rng.randint(0,3)):
        pr[i]=rng.choice([-2,-1,1,2,3,1,1])
    seen={}
    def solver(ph,objs):
        seen['o']=objs; return [(None,0,4)]*len(objs)
    list(c.select(pr,solver=solver))
    obj=np.asarray(seen['o'][0]).astype(object)
    # key
    levels=sorted(set(abs(v) for v in pr.values()),reverse=True)
    def key(x):
        k=[]
        for L in levels:
            k.append(sum((1 if pr[i]>0 else -1)*x[j] for j,i in enumerate(colid) if i in pr and abs(pr[i])==L))
        k.append(-sum(x[j] for j,i in enumerate(colid) if i not in pr and i in nd))
        k.append(-sum(x[j] for j,i in enumerate(colid) if i not in pr and i not in nd))
        return tuple(k)
    fl=[tuple(int(v) for v in f) for f in feas]
    if len(fl)>60: fl=rng.sample(fl,60)
    ok=True
    for x in fl:
        for y in fl:
            stats['pairs']+=1
            ox=sum(int(o)*a for o,a in zip(obj,x)); oy=sum(int(o)*a for o,a in zip(obj,y))
            kx,ky=key(x),key(y)
            if (ox>oy)!=(kx>ky) or (ox==oy)!=(kx==ky):
                fails.setdefault(("C14",),[]).append((c.to_text(),pr,colid,obj.tolist(),x,y,kx,ky)); ok=False; break
        if not ok: break
print(stats)
for k,v in fails.items():
    print(k, len(v)); print("   ", v[0])
