from gen import *
import sys, time
sys.path.insert(0,'/tmp/scratch/deps')
from scipy.optimize import milp, LinearConstraint, Bounds as SB
rng = random.Random(int(sys.argv[1]) if len(sys.argv)>1 else 0)
kinds = ["AtLeast","AtMost","All","Any","Xor","XNor","Imply","Not"]
fails={}; stats=dict(models=0,safe=0,solves=0,verified=0,unverified=0,infeasible=0,tb_checked=0)
def safe(m):
    if isinstance(m,puan.variable): return True
    if m.sign<0 and any(not isinstance(c,puan.variable) for c in m.propositions): return False
    return all(safe(c) for c in m.propositions)
t0=time.time()
for it in range(300):
    pool=[puan.variable(c) for c in "abc"]+[puan.variable("t",dtype="int"), puan.variable("u",(-32768,5)), puan.variable("w",(-7,32767)), puan.variable("s",(-50,50))]
    try:
        m=rand_model(rng,pool,3,kinds)
        if not isinstance(m,puan.variable) and rng.random()<0.6:
            m=pg.All(m, pg.AtLeast(rng.randint(-40000,40000),[pool[3],rng.choice(pool[:3]+pool[4:])],sign=rng.choice([1,-1]),variable="BIG"),variable="TOP")
    except Exception: continue
    if isinstance(m,puan.variable) or m.errors(): continue
    stats['models']+=1
    P=m.to_ge_polyhedron(True)
    cols=list(P.A.variables); n=len(cols)
    A=np.asarray(P.A).astype(float); b=np.asarray(P.b).astype(float)
    Ao=np.asarray(P.A).astype(object); bo=np.asarray(P.b).astype(object)
    lo=np.array([c.bounds.lower for c in cols],dtype=float); hi=np.array([c.bounds.upper for c in cols],dtype=float)
    sf=safe(m); stats['safe']+=sf
    # C12-like: tightened bounds soundness via per-column min/max
    tb=np.asarray(P.tighten_column_bounds())
    objs=[]
    for j in range(n):
        e=np.zeros(n); e[j]=1; objs+= [e,-e]
    for _ in range(6): objs.append(np.array([rng.randint(-3,3) for _ in range(n)],dtype=float))
    for cvec in objs:
        r=milp(c=cvec,constraints=LinearConstraint(A,lb=b,ub=np.inf),integrality=np.ones(n),bounds=SB(lo,hi))
        stats['solves']+=1
        if r.status==2: stats['infeasible']+=1; continue
        if r.x is None: continue
        x=np.array([int(round(v)) for v in r.x],dtype=object)
        ok=bool((Ao.dot(x)>=bo).all()) and all(c.bounds.lower<=xi<=c.bounds.upper for c,xi in zip(cols,x))
        if not ok: stats['unverified']+=1; continue
        stats['verified']+=1
        if ((x<tb[0])|(x>tb[1])).any(): fails.setdefault(("C12-cut",),[]).append((m.to_text(),x.tolist(),tb.tolist()))
        stats['tb_checked']+=1
        if sf:
            env={c.id:int(xi) for c,xi in zip(cols,x) if type(c)==puan.variable}
            L=leaves_of(m)
            if all(l.id in env for l in L):
                if ref_eval(m,env)!=1: fails.setdefault(("C02",),[]).append((m.to_text(),env))
print(stats,"%.1fs"%(time.time()-t0))
for k,v in fails.items():
    print(k, len(v)); print("   ", str(v[0])[:800])
