from gen import *
import sys
rng = random.Random(int(sys.argv[1]) if len(sys.argv)>1 else 0)
kinds = ["AtLeast","AtMost","All","Any","Xor","XNor","Imply","Not"]
fails={}; stats=dict(n=0,valid=0,shared=0)
for it in range(1500):
    base=make_pool(rng,3,1)
    shared=[]
    for _ in range(rng.randint(1,2)):
        try:
            s=rand_model(rng,base,1,["AtLeast","AtMost","All","Any","Xor"],explicit=rng.choice([0.0,1.0]))
            shared.append(s)
        except Exception: pass
    pool=base+shared
    try: m=rand_model(rng,pool,2,kinds)
    except Exception as e: continue
    stats['n']+=1
    if isinstance(m,puan.variable): continue
    errs=m.errors()
    cnt={}
    def walk(q):
        if isinstance(q,puan.variable): return
        cnt[id(q)]=cnt.get(id(q),0)+1
        for c in q.propositions: walk(c)
    walk(m)
    is_shared=any(cnt.get(id(s),0)>=2 for s in shared)
    if errs:
        if is_shared: fails.setdefault(("shared-rejected",str(errs)),[]).append(m.to_text())
        continue
    stats['valid']+=1; stats['shared']+=is_shared
    L=leaves_of(m)
    space=1
    for l in L: space*=l.bounds.upper-l.bounds.lower+1
    if space>2000: continue
    P=m.to_ge_polyhedron(True)
    for vals in itertools.product(*[range(l.bounds.lower,l.bounds.upper+1) for l in L]):
        env={l.id:v for l,v in zip(L,vals)}
        ev=m.evaluate_propositions(env)
        full={k:v.constant for k,v in ev.items()}
        bad=False
        for q in m.flatten():
            if not isinstance(q,puan.variable) and full[q.id]!=ref_eval(q,env):
                fails.setdefault(("C03",),[]).append((m.to_text(),env)); bad=True; break
        x=P.A.construct(full)
        if bool((P.A.dot(x)>=P.b).all())!=(full[m.id]==1):
            fails.setdefault(("C01",),[]).append((m.to_text(),env)); bad=True
        if bad: break
print(stats)
for k,v in fails.items():
    print(k, len(v)); print("   ", v[0])
