import warnings; warnings.filterwarnings("ignore")
import puan, puan.logic.plog as pg, puan.ndarray as pnd, numpy as np, itertools
C = pg.Any("c","d",variable="C")
m = pg.All("a","b",C,variable="M")
n = m.negate()
print(repr(n), n.propositions, [repr(p.propositions) for p in n.propositions])
for a,b,c,d in itertools.product([0,1],repeat=4):
    i = dict(a=a,b=b,c=c,d=d)
    print(i, m.evaluate(i).constant, n.evaluate(i).constant)
