import warnings; warnings.filterwarnings("ignore")
import puan, puan.logic.plog as pg, puan.ndarray as pnd, numpy as np, itertools
x1 = puan.variable("x",(0,3)); x2 = puan.variable("x",(1,2)); x3=puan.variable("x",(0,4))
m = pg.All(pg.AtLeast(2,[x1,"a"],variable="A"), pg.AtLeast(2,[x2,"b"],variable="B"), variable="M")
print(m.errors(), m.flatten())
m = pg.All(pg.AtLeast(2,[x1,"a"],variable="A"), pg.AtLeast(2,[x3,"b"],variable="B"), variable="M")
print(m.errors())
# same compound id, differing only by child bounds with equal sums
m = pg.All(pg.Any(pg.AtLeast(2,[x1],variable="A"),"p",variable="P"), pg.Any(pg.AtLeast(2,[x2],variable="A"),"q",variable="Q"), variable="M")
print(m.errors())
# int ids?
try:
    m = pg.All(puan.variable(1,(0,1)), puan.variable(0,(1,1)), variable="M"); print(m.errors())
except Exception as e: print("ERR",e)
