from gen import *
import sys, copy, json
rng = random.Random(int(sys.argv[1]) if len(sys.argv)>1 else 0)
ALLOW_COMPOUND = len(sys.argv)>2 and sys.argv[2]=="compound"
kinds = ["AtLeast","AtMost","All","Any","Xor","XNor","Imply","Not"]
fails={}; stats=dict(hist=0,steps=0)
def canon(x):
    if isinstance(x,puan.Bounds): return ("B",int(x.lower),int(x.upper))
    if isinstance(x,puan.variable): return ("v",x.id,canon(x.bounds))
    if isinstance(x,pg.AtLeast): return ("P",type(x).__name__,x.to_text(),x.generated_id)
    if isinstance(x,np.ndarray):
        return ("A",np.asarray(x).tolist(),[canon(v) for v in getattr(x,'variables',[])] if getattr(x,'variables',None) is not None else None)
    if isinstance(x,dict): return ("D",sorted((str(k),canon(v)) for k,v in x.items()))
    if isinstance(x,(list,tuple)): return ("L",[canon(v) for v in x])
    if isinstance(x,(int,str,float,bool,type(None))): return x
    if isinstance(x,np.integer): return int(x)
    return repr(x)
def snap(q):
    if isinstance(q,puan.variable): return ("v",q.id,q.bounds.as_tuple())
    return (type(q).__name__,q.id,q.variable.bounds.as_tuple(),int(q.sign),q.value,q.generated_id,tuple(snap(c) for c in q.propositions))
def ops(m,rng):
    L=[p for p in m.flatten() if type(p)==puan.variable]
    C=[p for p in m.flatten() if not isinstance(p,puan.variable)]
    def interp():
        d={}
        for l in L:
            if rng.random()<0.6: d[l.id]=rng.randint(l.bounds.lower,l.bounds.upper)
        if ALLOW_COMPOUND and rng.random()<0.4:
            d[rng.choice(C).id]=rng.choice([0,1])
        return d
    k=rng.choice(["evaluate","evalprops","assume","reduce","negate","errors","to_json","to_text","to_b64","poly1","poly0","flatten","taut","assume_reduce"])
    if k=="evaluate": d=interp(); return (k,d),lambda o: o.evaluate(d)
    if k=="evalprops": d=interp(); return (k,d),lambda o: o.evaluate_propositions(d)
    if k=="assume": d=interp(); return (k,d),lambda o: o.assume(d)
    if k=="assume_reduce": d=interp(); return (k,d),lambda o: (lambda a: a.reduce() if hasattr(a,'reduce') else a)(o.assume(d))
    if k=="reduce": return (k,),lambda o:o.reduce()
    if k=="negate": return (k,),lambda o:o.negate()
    if k=="errors": return (k,),lambda o:[str(e) for e in o.errors()]
    if k=="to_json": return (k,),lambda o:json.dumps(o.to_json(),sort_keys=True)
    if k=="to_text": return (k,),lambda o:o.to_text()
    if k=="to_b64": return (k,),lambda o:o.to_b64()
    if k=="poly1": return (k,),lambda o:o.to_ge_polyhedron(True)
    if k=="poly0": return (k,),lambda o:o.to_ge_polyhedron(False)
    if k=="flatten": return (k,),lambda o:o.flatten()
    if k=="taut": return (k,),lambda o:(o.is_tautology,o.is_contradiction,o.equation_bounds)
for it in range(400):
    pool=make_pool(rng,3,1)
    try: m=rand_model(rng,pool,2,kinds)
    except Exception: continue
    if isinstance(m,puan.variable) or m.errors(): continue
    b64=m.to_b64()
    s0=snap(m)
    stats['hist']+=1
    hist=[]
    for step in range(8):
        desc,f=ops(m,rng)
        hist.append(desc); stats['steps']+=1
        def run(o):
            try: return canon(f(o))
            except Exception as e: return ("EXC",type(e).__name__)
        r=run(m); rf=run(pg.from_b64(b64))
        if r!=rf:
            fails.setdefault(("result",desc[0]),[]).append((m.to_text(),hist)); break
        if snap(m)!=s0:
            fails.setdefault(("state",desc[0]),[]).append((m.to_text(),hist)); break
print(stats)
for k,v in fails.items():
    print(k, len(v)); print("   ", str(min(v,key=lambda x: len(str(x))))[:700])
