# (name, property, file, old, new)
PL='puan/logic/plog/__init__.py'; ND='puan/ndarray/__init__.py'; CC='puan/modules/configurator/__init__.py'; PU='puan/__init__.py'
M=[
("c01_bias_sign","C01",PL,"                            bias=-1*x.value,\n                            sign=pr.SignPy.Positive if x.sign == puan.Sign.POSITIVE else pr.SignPy.Negative\n                        ) if not issubclass(x.__class__, puan.variable) else None,\n                    ),\n                    flatten_dict.values()\n                )\n            )\n        ).to_ge_polyhedron(active, reduced)","                            bias=-1*x.value - (1 if (x.sign == puan.Sign.NEGATIVE and len(x.propositions) > 2) else 0),\n                            sign=pr.SignPy.Positive if x.sign == puan.Sign.POSITIVE else pr.SignPy.Negative\n                        ) if not issubclass(x.__class__, puan.variable) else None,\n                    ),\n                    flatten_dict.values()\n                )\n            )\n        ).to_ge_polyhedron(active, reduced)"),
("c03_assume_ge_gt","C03",PL,"                        ).sum(axis=0) >= self.value\n                    ) * 1,\n                ),\n                sign=self.sign,","                        ).sum(axis=0) >= self.value + (1 if self.sign < 0 and self.value < -1 else 0)\n                    ) * 1,\n                ),\n                sign=self.sign,"),
("c03_flip_dropped","C03",PL,"                                    lambda x: x if self.sign > 0 else (x[1]*self.sign, x[0]*self.sign),\n                                    map(\n                                        lambda prop: prop.bounds.as_tuple(),\n                                        assumed_propositions,","                                    lambda x: x if self.sign > 0 else (x[0]*self.sign, x[1]*self.sign),\n                                    map(\n                                        lambda prop: prop.bounds.as_tuple(),\n                                        assumed_propositions,"),
("c05_negate_value","C05",PL,"            negated.value += len(compounds)","            negated.value += len(compounds) - (1 if len(compounds) > 2 else 0)"),
("c02_negate_nopush","C02",PL,"        if (negated.sign == -1) and (len(atoms) < len(negated.propositions)):","        if (negated.sign == -1) and (len(atoms) < len(negated.propositions)) and len(negated.propositions) < 3:"),
("c06_taut_gt","C06",PL,"        return self.equation_bounds[0] >= 0","        return self.equation_bounds[0] > 0 or (self.equation_bounds[0] == 0 and self.sign > 0)"),
("c06_eqmm","C06",PL,"        can_max_val = sum(map(lambda x: max(x.bounds.as_tuple())*self.sign, self.propositions))","        can_max_val = sum(map(lambda x: max(x.bounds.as_tuple()), self.propositions))*self.sign if len(self.propositions) < 4 else sum(map(lambda x: abs(max(x.bounds.as_tuple())), self.propositions))*self.sign"),
("c07_assume_keepfixed","C07",PL,"                    lambda prop: prop.id in new_variable_bounds,","                    lambda prop: prop.id in new_variable_bounds and issubclass(prop.__class__, puan.variable),"),
("c08_reduce_sign","C08",PL,"            ) * self.sign,\n            list(filter(lambda x: x.bounds.constant is None, sub_propositions)),","            ),\n            list(filter(lambda x: x.bounds.constant is None, sub_propositions)),"),
("c09_add_append","C09",CC,"        return StingyConfigurator(\n            *(self.propositions + [proposition]), ","        self.propositions.append(proposition)\n        return StingyConfigurator(\n            *(self.propositions), "),
("c09_reduce_inplace","C09",PL,"        sub_propositions = list(\n            itertools.chain(\n                map(\n                    operator.methodcaller(\"reduce\"),","        self.propositions.sort(key=lambda x: x.id, reverse=False)\n        sub_propositions = list(\n            itertools.chain(\n                map(\n                    operator.methodcaller(\"reduce\"),"),
("c10_skip_dupedge","C10",PL,"                            lambda i: i >= 2,","                            lambda i: i >= 3,"),
("c11_amin","C11",ND,"        return (init[0]*(self.A>0)*self.A)+(init[1]*(self.A<0)*self.A)","        return (numpy.minimum(init[0],0)*(self.A>0)*self.A)+(init[1]*(self.A<0)*self.A)"),
("c12_floor_ceil","C12",ND,"            res = numpy.floor(-(rw_bnds.T[1].reshape(-1,1) - self.A_max) / self.A)","            res = numpy.ceil(-(rw_bnds.T[1].reshape(-1,1) - self.A_max) / self.A)"),
("c12_rowbounds","C12",ND,"            A_.min(axis=0).sum(axis=1)-self.b, \n            A_.max(axis=0).sum(axis=1)-self.b","            A_.min(axis=0).sum(axis=1)-self.b, \n            numpy.maximum(A_.max(axis=0),0).sum(axis=1)-self.b"),
("c13_neg_sign","C13",ND,"                compressed_neg = self_reduced.min(axis=0)","                compressed_neg = self.min(axis=0)"),
("c13_tie_break","C13",ND,"                oba_inp = oba_inp[oba_inp != 0].flatten()\n","                oba_inp = oba_inp[oba_inp != 0].flatten()\n                oba_inp = oba_inp + (numpy.arange(oba_inp.size) % 2) * (oba_inp.size > 6)\n"),
("c14_stack_order","C14",ND,"                        lambda y: [\n                            self.default_prio_vector,\n                            list(","                        lambda y: [\n                            self.default_prio_vector*(1 if len(y) < 3 else 0),\n                            list("),
("c14_prio_lost","C14",CC,"                inner.prio = getattr(inner, 'prio', -1)-1 ","                inner.prio = getattr(inner, 'prio', -1)-(1 if len(complement) < 3 else 0) "),
("c15_solve_shift","C15",PL,"                                zip(\n                                    polyhedron.A.variables,\n                                    solution\n                                )","                                zip(\n                                    polyhedron.A.variables if len(polyhedron.A.variables) < 6 else polyhedron.variables,\n                                    solution\n                                )"),
("c15_select_ids","C15",ND,"                            map(\n                                operator.attrgetter(\"id\"),\n                                variables\n                            ),\n                            solution","                            map(\n                                operator.attrgetter(\"id\"),\n                                sorted(variables, key=lambda v: str(v.id)) if len(variables) > 7 else variables\n                            ),\n                            solution"),
("c16_atmost_value","C16",PL,"        d = super().to_json()\n        d['value'] = -1*self.value\n        return d","        d = super().to_json()\n        d['value'] = -1*self.value if len(self.propositions) < 4 else self.value\n        return d"),
("c16_xor_default","C16",CC,"            default= None if len(default) == 0 else list(map(lambda x: puan.variable.from_json(x, [puan.variable]), default)),","            default= None if len(default) == 0 or len(data.get('propositions', [])) > 2 else list(map(lambda x: puan.variable.from_json(x, [puan.variable]), default)),"),
("c17_b64_index","C17",ND,"                    [self, self.default_prio_vector, self.variables, self.index, self.dtype],","                    [self, self.default_prio_vector, self.variables, self.index if self.shape[0] < 5 else [], self.dtype],"),
("c18_add_id","C18",CC,"            *(self.propositions + [proposition]), \n            id=self.id,","            *(self.propositions + [proposition]), \n            id=self.id if not self.generated_id else None,"),
("c19_axis","C19",ND,"                (numpy.matmul(A, points.T) < b.reshape(-1,1)).any(axis=1)","                (numpy.matmul(A, points.T) < b.reshape(-1,1)).any(axis=1) if points.shape[0] < 3 else (numpy.matmul(A, points.T) <= b.reshape(-1,1)).any(axis=1)"),
("c20_default_upper","C20",ND,"                                operator.attrgetter(\"bounds.lower\"),","                                lambda v: v.bounds.lower if v.bounds.lower >= 0 else v.bounds.upper,"),
("c04_cicje_swap","C04",PL,"            \"ONE_OR_NONE\": lambda x,id: AtMost(value=1,propositions=x,variable=id),","            \"ONE_OR_NONE\": lambda x,id: (lambda xs: AtMost(value=1 if len(xs) < 4 else 2,propositions=xs,variable=id))(list(x)),"),
("c04_all_len","C04",PL,"        super().__init__(value=len(set(propositions)), propositions=propositions, variable=variable)","        super().__init__(value=len(set(propositions)) - (1 if len(propositions) > 4 else 0), propositions=propositions, variable=variable)"),
]

# ---------------------------------------------------------------------------------------------
# Design-round results (scratch copies, pinned suite run with a throw-away Hypothesis database):
#
# survive the 125 pinned tests:
#   c03_assume_ge_gt c05_negate_value c02_negate_nopush c06_eqmm c07_assume_keepfixed
#   c08_reduce_sign c09_add_append c09_reduce_inplace c11_amin c12_rowbounds c14_stack_order
#   c14_prio_lost c15_select_ids c16_atmost_value c17_b64_index c18_add_id c19_axis
#   c20_default_upper c04_cicje_swap c04_all_len
# killed by the pinned tests (not realistic survivors, drop or rewrite):
#   c01_bias_sign c03_flip_dropped c06_taut_gt c10_skip_dupedge c12_floor_ceil c13_neg_sign
#   c13_tie_break c15_solve_shift c16_xor_default
#
# lessons for the generators / the catalogue:
#   * c07_assume_keepfixed, c11_amin are *property preserving* (structure only / weaker-but-sound
#     result): the checks must stay quiet on them; they are kept as "must-not-alarm" controls and
#     replaced by real mutants (assume computing the node's bounds from un-assumed children;
#     A_min using the upper bound for positive coefficients).
#   * c15_select_ids is a no-op (columns are already sorted by id): use reversed() instead.
#   * c06_eqmm, c04_all_len, c14_prio_lost, c15_*, c17_b64_index only bite on nodes with >= 4-5
#     children, > 7 columns, >= 5 rows or a custom row index: generators must reach those sizes
#     (children up to 6, skewed small) and C17 must include directly constructed
#     ge_polyhedron_config objects with explicit index lists.
#   * tests/test_puan.py::test_plog_reduce_property_based is flaky on the unchanged tree (a random
#     draw that hits the equal-sum hash defect D4); treat it as noise when judging survivors.
